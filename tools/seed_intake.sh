#!/bin/bash
# usage: tools/seed_intake.sh <Cxx> <k> [tier]
# Confirms a sub-agent's seeded change /tmp/seed_<Cxx>/_out/mutant<k>.diff in a scratch worktree
# (applies, builds, repository suite unchanged, demonstration fails with / passes without the change),
# then runs the property's check (and, if that misses, every check) against it and files it under
# /verif/seeded/<Cxx>-<k>/ (patch.diff, demo_test.go, notes.md, meta.json).
id=$1; k=$2; tier=${3:-quick}
src=/tmp/seed_$id/_out
prop=$id
# cross-cutting seeds (directories X1..X8) name the property they break in the first line of their notes
case "$id" in X*) prop=$(grep -m1 -oE 'PROPERTY: *C[0-9]+' $src/notes$k.md | grep -oE 'C[0-9]+');; esac
[ -n "$prop" ] || { echo "no property for $id-$k"; exit 3; }
cd "$(dirname "$0")/.."
export GOFLAGS=-mod=mod GOPROXY=off GOSUMDB=off GOTOOLCHAIN=local
[ -f $src/mutant$k.diff ] || { echo "no $src/mutant$k.diff"; exit 3; }
wt=$(mktemp -d /tmp/si_XXXXXX); rmdir $wt
git -C /repo worktree add -q --detach $wt HEAD || exit 3
trap 'git -C /repo worktree remove --force $wt >/dev/null 2>&1' EXIT
NS=""; unshare -n true 2>/dev/null && NS="unshare -n --"
pkg=$(grep -m1 '^package ' $src/demo${k}_test.go | awk '{print $2}')
case "$pkg" in route) dir=internal/route;; inject) dir=inject;; *) dir=.;; esac
tests=$(grep -oE '^func (Test[A-Za-z0-9_]+)' $src/demo${k}_test.go | awk '{print $2}' | paste -sd'|')
race=""; grep -qi -- '-race' $src/notes$k.md 2>/dev/null && race="-race"
rundemo() { (cd $wt && cp $src/demo${k}_test.go $dir/zz_demo_test.go && $NS go test -vet=off -count=1 $race -run "^($tests)\$" ./$dir >/tmp/si_demo.$$ 2>&1; rc=$?; rm -f $dir/zz_demo_test.go; exit $rc); }
rundemo; clean_rc=$?
git -C $wt apply $src/mutant$k.diff || { echo "PATCH-DOES-NOT-APPLY"; exit 3; }
(cd $wt && go build ./...) >/dev/null 2>&1 || { echo "DOES-NOT-BUILD"; exit 3; }
rundemo; mut_rc=$?
suite=$(tools/baseline_check.sh $wt 2>&1 | head -1)
git -C $wt checkout -q -- . 
echo "$id-$k: demo on clean tree rc=$clean_rc (want 0), with change rc=$mut_rc (want !=0), suite: $suite"
out=$(tools/mutant_run.sh $src/mutant$k.diff $tier $prop 2>&1)
caught=$(echo "$out" | grep '^CAUGHT-BY:' | sed 's/CAUGHT-BY://')
first="$out"
if [ -z "$(echo $caught)" ]; then
  out=$(tools/mutant_run.sh $src/mutant$k.diff $tier 2>&1)
  caught=$(echo "$out" | grep '^CAUGHT-BY:' | sed 's/CAUGHT-BY://')
fi
echo "$out" | grep -E "rc=1|CAUGHT|INCONCL" | cut -c1-200
dst=seeded/$id-$k; mkdir -p $dst
cp $src/mutant$k.diff $dst/patch.diff; cp $src/demo${k}_test.go $dst/demo_test.go; cp $src/notes$k.md $dst/notes.md 2>/dev/null
echo "$out" | grep -A3 -m1 '^VIOLATION' | cut -c1-400 > $dst/first_violation.txt
python3 - "$id" "$k" "$clean_rc" "$mut_rc" "$suite" "$caught" "$dir" "$tests" "$tier" "$race" "$prop" <<'PY'
import json,sys,os
id,k,clean,mut,suite,caught,d,tests,tier,race,prop=sys.argv[1:12]
prev=json.load(open(f"/verif/seeded/{id}-{k}/meta.json")) if os.path.exists(f"/verif/seeded/{id}-{k}/meta.json") else {}
notes=open(f"/verif/seeded/{id}-{k}/notes.md").read() if os.path.exists(f"/verif/seeded/{id}-{k}/notes.md") else ""
meta={"breaks_property":prop,"origin":"independent sub-agent given only the property text and a scratch worktree",
 "needs_to_manifest":"see notes.md (written by the sub-agent)",
 "confirmed":{"applies_and_builds":True,"repository_suite_with_change":suite,"demo_package_dir":d,"demo_tests":tests,
   "demo_on_clean_tree_exit":int(clean),"demo_with_change_exit":int(mut),"demo_flags":race},
 "checks_run":f"tools/mutant_run.sh patch.diff {tier} (scratch worktree of /repo HEAD via VERIF_REPO; property's own check first, all checks if it missed)",
 "caught_by":caught.split(),"tier":tier,"strengthened":os.environ.get("STRENGTHENED","") or prev.get("strengthened",""),"first_violation":open(f"/verif/seeded/{id}-{k}/first_violation.txt",errors="replace").read()}
json.dump(meta,open(f"/verif/seeded/{id}-{k}/meta.json","w"),indent=1)
print("caught_by:",meta["caught_by"])
PY
rm -f /tmp/si_demo.$$
