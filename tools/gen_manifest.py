#!/usr/bin/env python3
"""Regenerates /verif/MANIFEST.json from the table below (keeps it schema-valid at all times)."""
import json, subprocess, os

CLAIMED = {
 # id: (technique, level text, level note, design ref)
 "C01": ("reference-model monitor (declarative derivation model, lexicographic-minimum winner) over generated route sets and hostile paths at Tree.Match and Flame.ServeHTTP; structural-invariant hook at quiescent points",
         "Held on every (route set, registration order, path) the seeded generators produced: each dispatch of the real code is compared with an independent model that enumerates all derivations. Exploration, not proof: sets of <=10 routes over the generator's segment catalogue.",
         "Trusts Go's regexp for evaluating one compiled expression and url.PathUnescape; the model's priority key is the statement's rule, validated by canaries and scratch mutants.", "DESIGN.md §5 C01"),
 "C02": ("reference-model monitor for captured values plus model-free predicates on observed values and a round trip through Leaf.URLPath",
         "Every bind of every dispatched request in the explored workload equals the model's captured substring decoded once; model-free predicates judge model and code alike. Exploration.",
         "Same trusted base as C01.", "DESIGN.md §5 C02"),
 "C08": ("reference-model monitor over registration histories (accept/reject by category), reachability dispatch of every accepted form, structural-invariant hook after every step",
         "Accept/reject of every step of every generated history equals the model's, at route.AddRoute and Flame level, in restart and continue mode; accepted routes are dispatched as the model says afterwards. Exploration.",
         "Segments outside the four kinds are driven for totality only. Loud failure = error (tree) / non-runtime panic (Flame).", "DESIGN.md §5 C08"),
 "C03": ("trace monitor over a per-request event log (instrumented handlers + spy writer) compared with a statement-level chain interpreter, plus interpreter-independent trace predicates",
         "Every generated handler program's complete event sequence, status and body equal the interpreter's prediction; order, at-most-once, nesting and stop-on-write/cancel are also judged directly on the trace. Exploration over programs of <= ~14 handlers with <= 5 actions each.",
         "The interpreter is the statement restated in ~60 lines; return-value rendering uses the C14 table.", "DESIGN.md §5 C03"),
 "C06": ("reference recogniser/parser monitor with fixpoint check; exhaustive enumeration of a bounded string space plus random derivations, byte edits and hostile bytes",
         "Acceptance, parsed structure, canonical rendering and its fixpoint agree with an independent recursive-descent parser of the documented EBNF on every enumerated / generated string; exhaustive only inside the stated alphabet and length bounds.",
         "Terminal classes ident/regex pinned at design time to the lexer's classes.", "DESIGN.md §5 C06"),
 "C09": ("reference-model monitor with per-route constraint sets over router histories (registrations, Headers() calls, requests)",
         "For every request of every generated history the serving route equals the model's choice among routes whose latest constraint set passes; includes static, optional short/long, multi-method and re-specified constraints. Exploration.",
         "Single-valued headers; Routes()/AutoHead return the Route of their last expansion (flat-expansion semantics).", "DESIGN.md §5 C09"),
 "C10": ("differential monitor: Flame.ServeHTTP against route.Tree.Match on an identically populated twin tree; hook-based enumeration of the whole shortcut table after every step",
         "Every request of every generated history has the same outcome (route, parameters or not-found) as full tree matching; with hooks every table entry is compared with matching on the router's own tree. Exploration.",
         "The twin receives the same AddRoute/SetHeaderMatcher calls; without hooks only the boundary comparison runs.", "DESIGN.md §5 C10"),
 "C11": ("differential monitor: registration program on one instance against the harness's own flat expansion on a second instance",
         "For every generated program and every method x instance path, status, handler-id trace and parameters are equal, statements are refused in both or neither, and Combo refuses a repeated verb. Exploration.",
         "The flattener is the statement's rule (prefix and handler concatenation, method expansion, AutoHead, scope restore).", "DESIGN.md §5 C11"),
 "C12": ("reference-renderer monitor driven by the generated derivation (simultaneous substitution), inverse check against dispatched requests, naming panics",
         "Every build through Router.URLPath, Context.URLPath and Leaf.URLPath equals the derivation-driven renderer for hostile values; requests dispatched to named routes rebuild their own path; empty/duplicate/unknown names panic. Exploration.",
         "Names containing braces are not generated.", "DESIGN.md §5 C12"),
 "C13": ("spy-writer trace monitor with a state-machine oracle and fault injection on the underlying writer",
         "For every generated operation sequence (all methods, with/without Flusher, short/failed writes) the forwarded calls, every Status/Size/Written reading, every Write result and the hook discipline equal the state machine and satisfy the trace predicates. Exploration over sequences of <= 12 operations.",
         "Before-functions are benign (no re-entrant writes).", "DESIGN.md §5 C13"),
 "C14": ("table-oracle monitor over reflect.MakeFunc-built handlers, reflective path vs built-in fast path, custom ReturnHandler",
         "Status, body and whether the next handler ran equal the statement's table for every generated value of every supported shape at every generated chain position, on both invocation paths. Exploration.",
         "Non-nil zero-length values are not judged; ints are valid status codes.", "DESIGN.md §5 C14"),
 "C15": ("trace monitor with injected panics (value kinds x sites x phases) over request sequences, in the three environments sequentially",
         "For every generated chain, site, phase and panic value nothing escapes ServeHTTP, the status is 500 iff nothing had been sent, detail appears only in development, middleware before Recovery completes, and healthy follow-up requests equal their baseline. Exploration.",
         "Panics are raised after Recovery in the chain; the environment is process-global so phases are sequential.", "DESIGN.md §5 C15"),
 "C16": ("outcome-function monitor over a fixture tree with unique content per file, universal outside-marker predicate, faulty http.FileSystem injection, supervised bursts of simultaneous directory requests (a request that never returns is a violation)",
         "For every generated (option set, method, path) the response is what an independent outcome function over the on-disk fixture predicts, never contains bytes of a file outside the directory, and a non-served request leaves no trace and lets the chain continue. Exploration.",
         "No symlinks, no Range requests; paths with NUL/backslash judged by the safety predicates only.", "DESIGN.md §5 C16"),
 "C17": ("decode-back monitor: recorded status / Content-Type / body decoded with encoding/json and encoding/xml",
         "Every generated Render call yields the given status, the expected Content-Type and a body that decodes back to the input and equals the standard encoding for the configured indentation; Render is injectable in later handlers wherever Renderer is installed. Exploration.",
         "Values are encodable.", "DESIGN.md §5 C17"),
 "C18": ("accessor-rule monitor (oracle written with strconv/net/url) and cookie round-trip monitor incl. all 256 single bytes",
         "Every accessor reading of every generated request follows the present/default/zero rule with standard parsing; every generated cookie value (all single bytes exhaustively) reads back byte for byte. Exploration.",
         "`present` is what net/url parses.", "DESIGN.md §5 C18"),
 "C04": ("reference-model monitor with acceptable-value sets over the harness's own registration table; reflective path vs hand-written FastInvoker wrappers vs built-in wrappings; real application/request scopes",
         "For every generated registration history, scope nesting and signature each argument is a value the nearest-scope rule allows, unresolved parameters give an error naming the type without running the body, results come back unchanged, and request-scoped values are gone in the next request. Exploration.",
         "Where several implementors are registered in one scope any of them is accepted (the implementation iterates a map). reflect.Type.Implements is trusted.", "DESIGN.md §5 C04"),
 "C05": ("Go race detector (happens-before) over cold instances under a concurrent stress workload, plus serial-twin equality and token-isolation monitors; a runtime fault (fatal error: concurrent map writes ...) that ends the instrumented process inside the framework is a violation with the running round as witness",
         "No race report with a framework frame in any explored execution; every concurrent response equals the response of the same request served alone on an identical instance and contains no other request's token. Exploration: the schedules actually produced (max in-flight and overlap counts are in the evidence).",
         "The race detector only sees accesses that occur and keeps a bounded shadow history; schedule-dependent logic errors without a data race are found only if the injected yields produce the schedule.", "DESIGN.md §5 C05"),
 "C07": ("totality monitor: recover() around ServeHTTP, chain counter, reference model for the chosen chain, repeat-and-rebuild equality",
         "For every generated valid route set and hostile request exactly one chain runs (the model's route or the not-found chain), nothing panics, and the outcome is identical on repetition and on an identically rebuilt instance. Exploration.",
         "req.URL non-nil; deterministic handlers.", "DESIGN.md §5 C07"),
}

NOT_YET = {
}

def main():
    root = os.path.dirname(os.path.dirname(os.path.abspath(__file__)))
    props = [json.loads(l) for l in open(os.path.join(root, "properties.jsonl")) if l.strip()]
    hooks_commit = "152baa3"
    checks = []
    na = []
    for p in props:
        pid = p["id"]
        if pid in CLAIMED:
            tech, text, note, ref = CLAIMED[pid]
            checks.append({
                "property_id": pid,
                "quick_cmd": f"./check {pid} quick",
                "thorough_cmd": f"./check {pid} thorough",
                "evidence_file": f"/verif/evidence/{pid}.json",
                "replay_cmd_template": "./check --replay {path}",
                "engine": "vcheck",
                "level_claimed": {"category": "exploration", "text": text, "design_ref": ref},
                "level_note": note,
                "technique": tech,
            })
        else:
            na.append({"property_id": pid, "reason": NOT_YET.get(pid, "monitor designed (DESIGN.md §5) but not built yet in this round; not claimed until its check exists and is silent on the unchanged tree")})
    m = {
        "version": 1,
        "setup_cmd": "./check --setup",
        "hooks": {
            "guard": "verif",
            "enable": "go build -tags verif (the harness module replaces github.com/flamego/flamego by /repo); ./check falls back to an untagged build if only the tagged build fails",
            "baseline_off_cmd": "cd /repo && GOFLAGS=-mod=mod GOPROXY=off GOSUMDB=off GOTOOLCHAIN=local go test -json -vet=off -count=1 -timeout 25m ./...",
            "source_commits": [hooks_commit],
            "add_only": True,
        },
        "engines": [{
            "name": "vcheck", "path": "/verif/harness",
            "serves_properties": [c["property_id"] for c in checks],
            "kind_free_text": "Go harness (module github.com/flamego/flamego/verifharness, replace => /repo): seeded workload generators, reference-model / trace / state-machine monitors written for each property, Go race detector for C05, read-only structural hooks behind build tag verif",
        }],
        "checks": checks,
        "not_applicable": na,
        "notes": "Runtime monitoring only. exit 0 held / 1 VIOLATION / 2 INCONCLUSIVE (coverage gate missed, watchdog, build failure). The thorough tier of every check except C05 first runs the property's quick workload on a GOARCH=386 build of harness and library (DESIGN.md 2.2a). Known findings: /verif/known_findings.txt (all current entries are fixed: lines, re-run as regression witnesses).",
    }
    json.dump(m, open(os.path.join(root, "MANIFEST.json"), "w"), indent=1)
    print("claimed:", [c["property_id"] for c in checks], "not_applicable:", [n["property_id"] for n in na])

main()
