#!/usr/bin/env python3
"""Regenerates /verif/MANIFEST.json from the table below (keeps it schema-valid at all times)."""
import json, subprocess, os

CLAIMED = {
 # id: (technique, level text, level note, design ref)
 "C01": ("reference-model monitor (declarative derivation model, lexicographic-minimum winner) over generated route sets and hostile paths at Tree.Match and Flame.ServeHTTP; structural-invariant hook at quiescent points",
         "Held on every (route set, registration order, path) the seeded generators produced: each dispatch of the real code is compared with an independent model that enumerates all derivations. Exploration, not proof: sets of <=10 routes over the generator's segment catalogue.",
         "Trusts Go's regexp for evaluating one compiled expression and url.PathUnescape; the model's priority key is the statement's rule, validated by canaries and scratch mutants.", "DESIGN.md §5 C01"),
 "C02": ("reference-model monitor for captured values plus model-free predicates on observed values and a round trip through Leaf.URLPath",
         "Every bind of every dispatched request in the explored workload equals the model's captured substring decoded once; model-free predicates judge model and code alike. Exploration.",
         "Same trusted base as C01.", "DESIGN.md §5 C02"),
 "C08": ("reference-model monitor over registration histories (accept/reject by category), reachability dispatch of every accepted form, structural-invariant hook after every step",
         "Accept/reject of every step of every generated history equals the model's, at route.AddRoute and Flame level, in restart and continue mode; accepted routes are dispatched as the model says afterwards. Exploration.",
         "Segments outside the four kinds are driven for totality only. Loud failure = error (tree) / non-runtime panic (Flame).", "DESIGN.md §5 C08"),
}

NOT_YET = {
}

def main():
    root = os.path.dirname(os.path.dirname(os.path.abspath(__file__)))
    props = [json.loads(l) for l in open(os.path.join(root, "properties.jsonl")) if l.strip()]
    hooks_commit = "152baa3"
    checks = []
    na = []
    for p in props:
        pid = p["id"]
        if pid in CLAIMED:
            tech, text, note, ref = CLAIMED[pid]
            checks.append({
                "property_id": pid,
                "quick_cmd": f"./check {pid} quick",
                "thorough_cmd": f"./check {pid} thorough",
                "evidence_file": f"/verif/evidence/{pid}.json",
                "replay_cmd_template": "./check --replay {path}",
                "engine": "vcheck",
                "level_claimed": {"category": "exploration", "text": text, "design_ref": ref},
                "level_note": note,
                "technique": tech,
            })
        else:
            na.append({"property_id": pid, "reason": NOT_YET.get(pid, "monitor designed (DESIGN.md §5) but not built yet in this round; not claimed until its check exists and is silent on the unchanged tree")})
    m = {
        "version": 1,
        "setup_cmd": "./check --setup",
        "hooks": {
            "guard": "verif",
            "enable": "go build -tags verif (the harness module replaces github.com/flamego/flamego by /repo); ./check falls back to an untagged build if only the tagged build fails",
            "baseline_off_cmd": "cd /repo && GOFLAGS=-mod=mod GOPROXY=off GOSUMDB=off GOTOOLCHAIN=local go test -json -vet=off -count=1 -timeout 25m ./...",
            "source_commits": [hooks_commit],
            "add_only": True,
        },
        "engines": [{
            "name": "vcheck", "path": "/verif/harness",
            "serves_properties": [c["property_id"] for c in checks],
            "kind_free_text": "Go harness (module github.com/flamego/flamego/verifharness, replace => /repo): seeded workload generators, reference-model / trace / state-machine monitors written for each property, Go race detector for C05, read-only structural hooks behind build tag verif",
        }],
        "checks": checks,
        "not_applicable": na,
        "notes": "Runtime monitoring only. exit 0 held / 1 VIOLATION / 2 INCONCLUSIVE (coverage gate missed, watchdog, build failure). Known findings: /verif/known_findings.txt (all current entries are fixed: lines, re-run as regression witnesses).",
    }
    json.dump(m, open(os.path.join(root, "MANIFEST.json"), "w"), indent=1)
    print("claimed:", [c["property_id"] for c in checks], "not_applicable:", [n["property_id"] for n in na])

main()
