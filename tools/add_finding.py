#!/usr/bin/env python3
"""append one entry to /verif/known_findings.txt
usage: add_finding.py fixed <prop> <commit> "<what failed>" <replay.json>
       add_finding.py open  <prop> <id>     "<what fails>"  <replay.json>
The witness is the `case` of the replay file; its kind is the replay's case kind."""
import json,sys
status,prop,ref,what,path=sys.argv[1:6]
d=json.load(open(path))
kind=d.get('kind','')
case=json.dumps(d['case'],separators=(',',':'))
ref = ref if status=='fixed' else 'id='+ref
line=f"{status}: property={prop} {ref} {what} ## kind={kind} witness={case}\n"
open('/verif/known_findings.txt','a').write(line)
print(line)
