#!/bin/bash
# usage: tools/mutant_run.sh <patch.diff> [tier] [props...]
# Applies the patch to a scratch worktree of /repo HEAD (outside /repo and /verif), confirms that it
# still builds and that the repository's suite (hooks off) still matches the baseline, then runs the
# given checks (default: all) against that worktree through VERIF_REPO. The worktree is removed afterwards.
patch=$(readlink -f "$1"); shift
tier=${1:-quick}; shift
props=${@:-C01 C02 C03 C04 C05 C06 C07 C08 C09 C10 C11 C12 C13 C14 C15 C16 C17 C18}
cd "$(dirname "$0")/.."
wt=$(mktemp -d /tmp/mut_XXXXXX); rmdir "$wt"
git -C /repo worktree add -q --detach "$wt" HEAD || exit 3
tag=$(echo "$wt" | md5sum | cut -c1-8)
trap 'git -C /repo worktree remove --force "$wt" >/dev/null 2>&1; find harness/bin -name "*-$tag*" -delete 2>/dev/null' EXIT
if ! git -C "$wt" apply "$patch"; then echo "PATCH-DOES-NOT-APPLY"; exit 3; fi
export GOFLAGS=-mod=mod GOPROXY=off GOSUMDB=off GOTOOLCHAIN=local
if ! (cd "$wt" && go build ./... ) >/dev/null 2>&1; then echo "MUTANT-DOES-NOT-BUILD"; exit 3; fi
if [ -n "${VERIF_SKIP_BASELINE:-}" ]; then echo "suite: not re-run (VERIF_SKIP_BASELINE)"; elif tools/baseline_check.sh "$wt" >/tmp/mut_base.$$ 2>&1; then echo "suite: still green with the mutant"; else echo "SUITE-FAILS-WITH-MUTANT"; cat /tmp/mut_base.$$; fi
rm -f /tmp/mut_base.$$
caught=""
for p in $props; do
  out=$(VERIF_REPO="$wt" VERIF_NO_EVIDENCE=1 ./check $p $tier 2>&1); rc=$?
  line=$(echo "$out" | grep -E 'seed=' | tail -1)
  echo "$p rc=$rc $line"
  if [ $rc -eq 1 ]; then caught="$caught $p"; echo "$out" | grep -A2 '^VIOLATION' | head -4 | cut -c1-300; fi
  if [ $rc -ge 2 ]; then echo "$out" | grep -E 'INCONCLUSIVE' | head -2; fi
done
echo "CAUGHT-BY:$caught"
