#!/usr/bin/env python3
"""refreshes the generated tables of DESIGN.md §10 (seeded changes; own mutants from /verif/mutants/RESULTS.txt)"""
import subprocess,re,os
p='/verif/DESIGN.md'; s=open(p).read()
tbl=subprocess.run(['/verif/tools/seed_table.py'],capture_output=True,text=True).stdout
s=re.sub(r'<!-- SEED-TABLE-BEGIN -->.*?<!-- SEED-TABLE-END -->','<!-- SEED-TABLE-BEGIN -->\n'+tbl.replace('\\','\\\\')+'<!-- SEED-TABLE-END -->',s,flags=re.S)
res='/verif/mutants/RESULTS.txt'
if os.path.exists(res):
    lines=[l.strip() for l in open(res) if ' | ' in l]
    out=["| Mutant | Repository suite with the mutant | Caught by | First violation kind |","|---|---|---|---|"]
    for l in sorted(lines):
        a=[x.strip() for x in l.split(' | ')]
        while len(a)<4: a.append('')
        out.append('| '+' | '.join([a[0],a[1].replace('suite: ',''),a[2].replace('caught by:',''),a[3]])+' |')
    caught=sum(1 for l in lines if 'NONE' not in l)
    out.append(f"\n{caught} of {len(lines)} own mutants are caught by the property's own quick check.")
    s=re.sub(r'<!-- OWN-MUTANTS-BEGIN -->.*?<!-- OWN-MUTANTS-END -->','<!-- OWN-MUTANTS-BEGIN -->\n'+'\n'.join(out).replace('\\','\\\\')+'\n<!-- OWN-MUTANTS-END -->',s,flags=re.S)
open(p,'w').write(s)
