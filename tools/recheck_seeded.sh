#!/bin/bash
# usage: tools/recheck_seeded.sh [-j N] [ids...]
# Re-runs the current checks against the seeded changes kept under /verif/seeded/<id>/ (patch.diff only;
# the sub-agents' scratch directories are not needed) and refreshes caught_by / first_violation in meta.json.
# Entries recorded with tier "thorough" are run with the main streams scaled down (VERIF_SCALE=0.02;
# workloads with fixed sizes, e.g. C01's wide fan-out, are unaffected).
cd "$(dirname "$0")/.."
J=3; [ "$1" = "-j" ] && { J=$2; shift 2; }
# every change was confirmed against the repository suite when it was filed; the re-run only asks the checks again
export VERIF_SKIP_BASELINE=1
ids=${@:-$(ls seeded)}
one() {
  id=$1; d=seeded/$id
  prop=$(python3 -c "import json;print(json.load(open('$d/meta.json'))['breaks_property'])")
  tier=$(python3 -c "import json;print(json.load(open('$d/meta.json')).get('tier','quick'))")
  scale=""; [ "$tier" = thorough ] && scale=0.02
  out=$(VERIF_SCALE=$scale tools/mutant_run.sh $d/patch.diff $tier $prop 2>&1)
  caught=$(echo "$out" | grep '^CAUGHT-BY:' | sed 's/CAUGHT-BY://')
  if [ -z "$(echo $caught)" ]; then
    out=$(VERIF_SCALE=$scale tools/mutant_run.sh $d/patch.diff $tier 2>&1)
    caught=$(echo "$out" | grep '^CAUGHT-BY:' | sed 's/CAUGHT-BY://')
  fi
  echo "$out" | grep -A3 -m1 '^VIOLATION' | cut -c1-400 > $d/first_violation.txt
  python3 - "$d" "$caught" <<'PY'
import json,sys
d,caught=sys.argv[1:3]
m=json.load(open(d+"/meta.json")); m["caught_by"]=caught.split(); m["first_violation"]=open(d+"/first_violation.txt",errors="replace").read()
json.dump(m,open(d+"/meta.json","w"),indent=1)
PY
  echo "$id ($prop, $tier): caught by:$caught"
}
i=0
for s in $(seq 0 $((J-1))); do
  ( k=0; for id in $ids; do [ $((k % J)) -eq $s ] && one $id; k=$((k+1)); done ) &
done
wait
