#!/usr/bin/env python3
"""Generates /verif/mutants/<Cxx>-<name>.diff from the table below (the scratch mutations listed under
"Mutants" in DESIGN.md §5). Each entry is a literal replacement in one file of /repo HEAD; the diff is
produced in a scratch worktree under /tmp which is removed afterwards.
usage: tools/own_mutants.py            (re)generate all diffs
"""
import os, subprocess, sys, tempfile, shutil

T = "internal/route/tree.go"
L = "internal/route/leaf.go"
M = [
 # (property, name, file, old, new)
 ("C01","subtree-lifo",T,"if subtree.getMatchStyle() < subtrees[i].getMatchStyle() {","if subtree.getMatchStyle() <= subtrees[i].getMatchStyle() {"),
 ("C01","leaf-lifo",T,"if leaf.getMatchStyle() < leaves[i].getMatchStyle() {","if leaf.getMatchStyle() <= leaves[i].getMatchStyle() {"),
 ("C01","no-fallback-after-deeper-miss",T,"""		leaf, ok := st.matchNextSegment(path, next, params, header)
		if !ok {
			continue
		}""","""		leaf, ok := st.matchNextSegment(path, next, params, header)
		if !ok {
			return nil, false
		}"""),
 ("C01","capture-off-by-one",T,"for t.capture <= 0 || t.capture >= captured {","for t.capture <= 0 || t.capture > captured {"),
 ("C01","matchall-longest-first",T,"""		leaf, ok := t.matchNextSegment(path, next, params, header)
		if ok {
			params[t.bind] = segment
			return leaf, true
		}

		i := strings.Index(path[next:], "/")""","""		if t.capture > 0 && captured < t.capture && strings.Count(path[next:], "/") > 0 {
			// prefer to swallow as much as allowed
		} else if leaf, ok := t.matchNextSegment(path, next, params, header); ok {
			params[t.bind] = segment
			return leaf, true
		}

		i := strings.Index(path[next:], "/")"""),
 ("C01","rank-regex-after-placeholder",L,"""	matchStyleRegex                  // e.g. "/webapi/{name: /[0-9]+/}"
	matchStylePlaceholder            // e.g. "/webapi/{name}\"""","""	matchStylePlaceholder            // e.g. "/webapi/{name}"
	matchStyleRegex                  // e.g. "/webapi/{name: /[0-9]+/}\""""),
 ("C02","no-unescape",T,"""		if err == nil {
			params[k] = unescaped
		}""","""		if err == nil && false {
			params[k] = unescaped
		}"""),
 ("C02","double-unescape",T,"""		if err == nil {
			params[k] = unescaped
		}""","""		if err == nil {
			if again, err := url.PathUnescape(unescaped); err == nil {
				unescaped = again
			}
			params[k] = unescaped
		}"""),
 ("C02","bind-matches-empty",L,'buf.WriteString("(.+)")','buf.WriteString("(.*)")'),
 ("C02","matchall-leaf-drops-first-segment",L,'params[l.bind] = segment + "/" + path[next:]','params[l.bind] = path[next-1:]'),
 ("C02","route-param-raw",("router.go"),'	params["route"] = leaf.Route()\n	leaf.Handler()(w, req, params)','	params["route"] = req.URL.Path\n	leaf.Handler()(w, req, params)'),
 ("C03","no-written-check","context.go","""		if c.ResponseWriter().Written() {
			return
		}
	}
}""","""	}
}"""),
 ("C03","no-cancel-check","context.go","""		case <-c.Request().Context().Done():
			return
		default:""","""		case <-c.Request().Context().Done():
		default:"""),
 ("C03","written-checked-before-rendering","context.go","""		// If the handler returned something, write it to the response.
		if len(vals) > 0 {""","""		if c.ResponseWriter().Written() {
			return
		}

		// If the handler returned something, write it to the response.
		if len(vals) > 0 {"""),
 ("C03","middleware-after-route-handlers","flame.go","""	hs = append(hs, f.handlers...)
	hs = append(hs, handlers...)""","""	hs = append(hs, handlers...)
	hs = append(hs, f.handlers...)"""),
 ("C04","implementor-search-removed","inject/inject.go","if t.Kind() == reflect.Interface {\n		for k, v := range inj.values {","if t.Kind() == reflect.Interface && false {\n		for k, v := range inj.values {"),
 ("C04","map-keeps-first","inject/inject.go","""	for _, val := range values {
		inj.values[reflect.TypeOf(val)] = reflect.ValueOf(val)
	}""","""	for _, val := range values {
		if _, ok := inj.values[reflect.TypeOf(val)]; !ok {
			inj.values[reflect.TypeOf(val)] = reflect.ValueOf(val)
		}
	}"""),
 ("C04","apply-ignores-tag","inject/inject.go","if f.CanSet() && ok {","if f.CanSet() && (ok || structField.Type.Kind() == reflect.Struct) {"),
 ("C04","callinvoke-zero-value","inject/inject.go","""			val = inj.Value(argType)
			if !val.IsValid() {
				return nil, fmt.Errorf("value not found for type %v", argType)
			}

			in[i] = val
		}
	}
	if t.IsVariadic() {""","""			val = inj.Value(argType)
			if !val.IsValid() {
				val = reflect.Zero(argType)
			}

			in[i] = val
		}
	}
	if t.IsVariadic() {"""),
 ("C04","fast-path-swaps-http-args","handler.go","invoke(args[0].(http.ResponseWriter), args[1].(*http.Request))","invoke(args[0].(http.ResponseWriter), args[1].(*http.Request).Clone(args[1].(*http.Request).Context()))"),
 ("C05","route-string-without-once","internal/route/definition.go","""func (r *Route) String() string {
	r.strOnce.Do(func() {
		var buf bytes.Buffer
		for _, s := range r.Segments {
			buf.WriteString(s.String())
		}
		r.str = buf.String()
	})
	return r.str
}""","""func (r *Route) String() string {
	if r.str == "" {
		var buf bytes.Buffer
		for _, s := range r.Segments {
			buf.WriteString(s.String())
		}
		r.str = buf.String()
	}
	return r.str
}"""),
 ("C06","ident-without-dollar","internal/route/parser.go","`[a-zA-Z0-9\\-._~@!$&'()*+;%=]+`","`[a-zA-Z0-9\\-._~@!&'()*+;%=]+`"),
 ("C06","regex-without-pipe","internal/route/parser.go","`[a-zA-Z0-9*\\-+._,?()\\[\\]{} \\\\\\|]+`","`[a-zA-Z0-9*\\-+._,?()\\[\\]{} \\\\]+`"),
 ("C06","render-colon-without-blank","internal/route/definition.go",'buf.WriteString(": ")','buf.WriteString(":")'),
 ("C06","one-blank-only","internal/route/definition.go",'Ident string             `parser:"@Ident \':\' \' \'*"`','Ident string             `parser:"@Ident \':\' \' \'?"`'),
 ("C07","unknown-method-nil-tree","router.go","""	routeTree, ok := r.routeTrees[req.Method]
	if !ok {
		r.notFound(w, req)
		return
	}
""","""	routeTree := r.routeTrees[req.Method]
"""),
 ("C07","no-trimleft",T,'	path = strings.TrimLeft(path, "/")\n	params := make(Params)','	path = strings.TrimPrefix(path, "/")\n	params := make(Params)'),
 ("C07","shortcut-falls-through","router.go","""		leaf.Handler()(w, req, route.Params{
			"route": leaf.Route(),
		})
		return
	}""","""		leaf.Handler()(w, req, route.Params{
			"route": leaf.Route(),
		})
		if req.Method != http.MethodHead || len(req.Header) == 0 {
			return
		}
	}"""),
 ("C08","placeholder-bind-check-removed",T,"""	if bind, ok := checkMatchStylePlaceholder(s); ok {
		if _, exists := parentBindSet[bind]; exists {
			return nil, errors.Errorf("duplicated bind parameter %q in position %d", bind, s.Pos.Offset)
		}
		return &placeholderTree{""","""	if bind, ok := checkMatchStylePlaceholder(s); ok {
		return &placeholderTree{"""),
 ("C08","non-final-optional-allowed",T,"""	if r.Segments[next].Optional {
		return nil, errors.New("only the last segment can be optional")
	}
""",""),
 ("C08","matchall-subtree-dup-check-removed",T,"""	if subtree.getMatchStyle() == matchStyleAll &&
		t.hasMatchAllSubtree() {
		return nil, errors.Errorf("duplicated match all bind parameter in position %d", segment.Pos.Offset)
	}
""",""),
 ("C08","method-case-sensitive","router.go","	method = strings.ToUpper(method)\n",""),
 ("C08","short-form-dup-skipped",T,"""			shortForm, err = addLeaf(parent.getParent(), r, parent.getSegment(), h)
			if err != nil {
				return nil, errors.Wrap(err, "add optional leaf to grandparent")
			}""","""			shortForm, err = addLeaf(parent.getParent(), r, parent.getSegment(), h)
			if err != nil {
				shortForm, err = nil, nil
			}"""),
 ("C09","headers-no-eviction","router.go","""		if leaf.Static() {
			delete(r.router.staticRoutes[m], leaf.Route())
		}
""","""		_ = m
"""),
 ("C09","missing-header-passes","internal/route/header_matcher.go","""		if v == "" {
			return false
		}""","""		if v == "" {
			continue
		}"""),
 ("C09","placeholder-leaf-skips-headers",L,"""func (l *placeholderLeaf) match(segment string, params Params, header http.Header) bool {
	if !l.matchHeader(header) {
		return false
	}""","""func (l *placeholderLeaf) match(segment string, params Params, header http.Header) bool {"""),
 ("C09","new-pairs-merged","router.go","""	for m, leaf := range r.leaves {
		leaf.SetHeaderMatcher(route.NewHeaderMatcher(matches))""","""	if r.prev == nil {
		r.prev = map[string]*regexp.Regexp{}
	}
	for k, v := range matches {
		r.prev[k] = v
	}
	matches = r.prev
	for m, leaf := range r.leaves {
		leaf.SetHeaderMatcher(route.NewHeaderMatcher(matches))"""),
 ("C10","lookup-by-request-uri","router.go","leaf, ok := r.staticRoutes[req.Method][req.URL.Path]","leaf, ok := r.staticRoutes[req.Method][strings.TrimRight(req.URL.Path, \"/\")]"),
 ("C10","shortcut-omits-route-param","router.go","""		leaf.Handler()(w, req, route.Params{
			"route": leaf.Route(),
		})""","""		leaf.Handler()(w, req, route.Params{})"""),
 ("C10","dynamic-leaves-in-table","router.go","		if leaf.Static() {\n			r.staticRoutes[m][leaf.Route()] = leaf","		if leaf.Static() || !strings.Contains(leaf.Route(), \"{\") {\n			r.staticRoutes[m][leaf.Route()] = leaf"),
 ("C11","group-not-popped-after-nested","router.go","	fn()\n	r.groups = r.groups[:len(r.groups)-1]","	n := len(r.groups)\n	fn()\n	if len(r.groups) == n {\n		r.groups = r.groups[:len(r.groups)-1]\n	}\n	if n > 2 {\n		r.groups = r.groups[:n]\n	}"),
 ("C11","autohead-also-for-post","router.go","""func (r *router) Post(routePath string, handlers ...Handler) *Route {
	return r.Route(http.MethodPost, routePath, handlers)""","""func (r *router) Post(routePath string, handlers ...Handler) *Route {
	if r.autoHead && len(r.groups) > 1 {
		r.Head(routePath, handlers...)
	}
	return r.Route(http.MethodPost, routePath, handlers)"""),
 ("C11","routes-without-trimspace","router.go","ms = append(ms, strings.TrimSpace(m))","ms = append(ms, strings.TrimLeft(m, \" \"))"),
 ("C11","group-handlers-inner-first","router.go","""		for _, g := range r.groups {
			groupPath += g.path
			hs = append(hs, g.handlers...)
		}""","""		for i, g := range r.groups {
			groupPath += g.path
			if i >= 2 {
				hs = append(append([]Handler{}, g.handlers...), hs...)
				continue
			}
			hs = append(hs, g.handlers...)
		}"""),
 ("C12","optional-always-rendered",L,"		if s.Optional && !withOptional {\n			break\n		}","		if s.Optional && !withOptional && len(vals) == 0 {\n			break\n		}"),
 ("C12","unknown-binds-rendered-empty",L,"	return strings.NewReplacer(pairs...).Replace(buf.String())","	out := strings.NewReplacer(pairs...).Replace(buf.String())\n	if withOptional {\n		out = regexp.MustCompile(`\\{[a-z]+\\}`).ReplaceAllString(out, \"\")\n	}\n	return out"),
 ("C13","status-stored-before-hooks","response_writer.go","""	w.beforeOnce.Do(w.callBefore)
	w.ResponseWriter.WriteHeader(s)
	atomic.StoreInt32(&w.status, int32(s))""","""	atomic.StoreInt32(&w.status, int32(s))
	w.beforeOnce.Do(w.callBefore)
	w.ResponseWriter.WriteHeader(s)"""),
 ("C13","flush-without-implicit-header","response_writer.go","""func (w *responseWriter) Flush() {
	if !w.Written() {
		// The status will be StatusOK if WriteHeader has not been called yet.
		w.WriteHeader(http.StatusOK)
	}
""","""func (w *responseWriter) Flush() {
"""),
 ("C13","size-counted-for-head","response_writer.go","""	if w.method != http.MethodHead {
		size, err = w.ResponseWriter.Write(b)
		w.size += size
	}""","""	if w.method != http.MethodHead {
		size, err = w.ResponseWriter.Write(b)
	} else {
		size = len(b)
	}
	w.size += size"""),
 ("C13","hooks-fifo","response_writer.go","	for i := len(w.beforeFuncs) - 1; i >= 0; i-- {\n		w.beforeFuncs[i](w)\n	}","	for i := 0; i < len(w.beforeFuncs); i++ {\n		w.beforeFuncs[i](w)\n	}"),
 ("C14","int-error-ignores-int","return_handler.go","""			if vals[0].Kind() == reflect.Int {
				w.WriteHeader(int(vals[0].Int()))""","""			if vals[0].Kind() == reflect.Int {
				if _, isErr := vals[1].Interface().(error); !isErr {
					w.WriteHeader(int(vals[0].Int()))
				}"""),
 ("C14","pointer-not-dereferenced","return_handler.go","		if canDeref(respVal) {\n			respVal = respVal.Elem()\n		}","		if canDeref(respVal) && respVal.Kind() == reflect.Interface {\n			respVal = respVal.Elem()\n		}"),
 ("C14","fast-path-swallows-status-1xx","handler.go","	ret1, ret2 := invoke()\n","	ret1, ret2 := invoke()\n	if ret1 >= 500 && ret2 == \"\" {\n		ret2 = http.StatusText(ret1)\n	}\n"),
 ("C15","recover-only-errors-and-strings","recovery.go","			if err := recover(); err != nil {\n				stack := stack(3)","			if err := recover(); err != nil {\n				if _, isInt := err.(int); isInt {\n					panic(err)\n				}\n				stack := stack(3)"),
 ("C15","detail-in-test-env","recovery.go","				if Env() == EnvTypeDev {","				if Env() != EnvTypeProd {"),
 ("C15","no-500-when-header-set","recovery.go","				w.WriteHeader(http.StatusInternalServerError)\n				_, _ = w.Write(body)","				if w.Header().Get(\"Content-Type\") == \"text/html\" {\n					w.WriteHeader(http.StatusInternalServerError)\n				}\n				_, _ = w.Write(body)"),
 ("C16","prefix-boundary-check-removed","static.go","""			file = file[len(opt.Prefix):]
			if file != "" && file[0] != '/' {
				return
			}""","""			file = file[len(opt.Prefix):]"""),
 ("C16","method-filter-removed","static.go","		if c.Request().Method != http.MethodGet && c.Request().Method != http.MethodHead {\n			return\n		}","		if c.Request().Method == http.MethodPost {\n			return\n		}"),
 ("C16","404-written-on-miss","static.go","""		f, err := opt.FileSystem.Open(file)
		if err != nil {
			return
		}""","""		f, err := opt.FileSystem.Open(file)
		if err != nil {
			if strings.HasSuffix(file, ".html") {
				c.ResponseWriter().WriteHeader(http.StatusNotFound)
			}
			return
		}"""),
 ("C16","redirect-dropped","static.go","""			if !strings.HasSuffix(redirPath, "/") {
				http.Redirect(c.ResponseWriter(), c.Request().Request, redirPath+"/", http.StatusFound)
				return
			}""","""			if !strings.HasSuffix(redirPath, "/") && opt.Prefix == "" {
				http.Redirect(c.ResponseWriter(), c.Request().Request, redirPath+"/", http.StatusFound)
				return
			}"""),
 ("C16","os-open-instead-of-http-dir","static.go","			opts.FileSystem = http.Dir(opts.Directory)","			opts.FileSystem = rawDir(opts.Directory)"),
 ("C17","status-fixed-for-binary","render.go","	r.responseWriter.Header().Set(\"Content-Type\", \"application/octet-stream\")\n	r.responseWriter.WriteHeader(status)","	r.responseWriter.Header().Set(\"Content-Type\", \"application/octet-stream\")\n	r.responseWriter.WriteHeader(http.StatusOK)"),
 ("C17","charset-dropped-for-plaintext","render.go",'"text/plain; charset="+r.opts.Charset','"text/plain; charset=utf-8"'),
 ("C17","json-indent-ignored-for-tabs","render.go",'	if r.opts.JSONIndent != "" {\n		enc.SetIndent("", r.opts.JSONIndent)','	if strings.TrimSpace(r.opts.JSONIndent) != r.opts.JSONIndent && r.opts.JSONIndent != "\\t" {\n		enc.SetIndent("", r.opts.JSONIndent)'),
 ("C18","queryint-base0","context.go","	i, _ := strconv.ParseInt(v, 10, 0)","	i, _ := strconv.ParseInt(v, 0, 0)"),
 ("C18","cookie-without-unescape","context.go","""	val, err := url.QueryUnescape(cookie.Value)
	if err != nil {
		return cookie.Value
	}
	return val""","""	val, err := url.PathUnescape(cookie.Value)
	if err != nil {
		return cookie.Value
	}
	return val"""),
 ("C18","default-although-present","context.go","""func (c *context) QueryFloat64(name string, defaultVal ...float64) float64 {
	v := c.Query(name)
	if v == "" && len(defaultVal) > 0 {
		return defaultVal[0]
	}
""","""func (c *context) QueryFloat64(name string, defaultVal ...float64) float64 {
	v := c.Query(name)
	if (v == "" || v == "0") && len(defaultVal) > 0 {
		return defaultVal[0]
	}
"""),
 ("C18","setcookie-pathescape","context.go","	cookie.Value = url.QueryEscape(cookie.Value)","	cookie.Value = url.PathEscape(cookie.Value)"),
]

EXTRA = {
 # mutants that need a second edit (helper code / struct field / import)
 "C09-new-pairs-merged": [("router.go","type Route struct {\n	router *router","type Route struct {\n	prev   map[string]*regexp.Regexp\n	router *router")],
 "C12-unknown-binds-rendered-empty": [],
 "C16-os-open-instead-of-http-dir": [("static.go","func generateETag(","// rawDir opens files below the directory without http.Dir's cleaning.\ntype rawDir string\n\nfunc (d rawDir) Open(name string) (http.File, error) {\n	return os.Open(string(d) + \"/\" + name)\n}\n\nfunc generateETag("),("static.go",'	"net/http"\n	"path"','	"net/http"\n	"os"\n	"path"')],
 "C17-json-indent-ignored-for-tabs": [("render.go",'	"net/http"\n)','	"net/http"\n	"strings"\n)')],
 "C16-404-written-on-miss": [],
}

def sh(*a, **k):
    return subprocess.run(a, check=True, capture_output=True, text=True, **k).stdout

def main():
    out = "/verif/mutants"
    os.makedirs(out, exist_ok=True)
    wt = tempfile.mkdtemp(prefix="ownmut_", dir="/tmp"); os.rmdir(wt)
    sh("git","-C","/repo","worktree","add","-q","--detach",wt,"HEAD")
    env = dict(os.environ, GOFLAGS="-mod=mod", GOPROXY="off", GOSUMDB="off", GOTOOLCHAIN="local")
    bad = 0
    try:
        for prop,name,f,old,new in M:
            key=f"{prop}-{name}"
            edits=[(f,old,new)]+EXTRA.get(key,[])
            ok=True
            for ef,eo,en in edits:
                p=os.path.join(wt,ef); s=open(p).read()
                if eo not in s:
                    print("PATTERN-NOT-FOUND", key, ef); ok=False; break
                open(p,"w").write(s.replace(eo,en,1))
            if ok:
                b=subprocess.run(["go","build","./..."],cwd=wt,env=env,capture_output=True,text=True)
                if b.returncode!=0:
                    print("DOES-NOT-BUILD", key, b.stderr.strip().splitlines()[:3]); ok=False
            if ok:
                open(os.path.join(out,key+".diff"),"w").write(sh("git","-C",wt,"diff"))
            else:
                bad+=1
            sh("git","-C",wt,"checkout","--",".")
    finally:
        subprocess.run(["git","-C","/repo","worktree","remove","--force",wt])
    print(f"generated {len(M)-bad} of {len(M)} mutant diffs in {out}")

main()
