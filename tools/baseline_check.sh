#!/bin/bash
# Runs the repository's own suite (guard OFF: no -tags verif) in DIR (default /repo) and compares
# the set of passing tests with the 358 stable passes of /root/.vp/BASELINE.json.
# exit 0 iff every baseline test passes.
DIR=${1:-/repo}
export GOFLAGS=-mod=mod GOPROXY=off GOSUMDB=off GOTOOLCHAIN=local
OUT=$(mktemp)
(cd "$DIR" && go test -json -vet=off -count=1 -timeout 25m ./... ) > "$OUT" 2>/dev/null
python3 - "$OUT" <<'PY'
import json,sys
base=json.load(open('/root/.vp/BASELINE.json'))
want=set(base['stable_pass'])
res={}
for line in open(sys.argv[1]):
    try: e=json.loads(line)
    except Exception: continue
    if e.get('Action') in ('pass','fail') and e.get('Test'):
        res[e['Package']+'::'+e['Test']]=e['Action']
passed={k for k,v in res.items() if v=='pass'}
missing=sorted(want-passed)
newfail=sorted(k for k,v in res.items() if v=='fail' and k not in set(base.get('always_fail',[])))
print(f"baseline: {len(want&passed)}/{len(want)} stable tests pass; failing now (not in always_fail): {len(newfail)}")
for m in missing[:20]: print("  MISSING/FAILED:",m)
for m in newfail[:20]: print("  NEW FAIL:",m)
sys.exit(1 if missing else 0)
PY
rc=$?
rm -f "$OUT"
exit $rc
