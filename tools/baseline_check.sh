#!/bin/bash
# Runs the repository's own suite (guard OFF: no -tags verif) in DIR (default /repo) and compares
# the set of passing tests with the 358 stable passes of /root/.vp/BASELINE.json.
# exit 0 iff every baseline test passes.
DIR=${1:-/repo}
export GOFLAGS=-mod=mod GOPROXY=off GOSUMDB=off GOTOOLCHAIN=local
OUT=$(mktemp)
# TestFlame_Run binds the fixed TCP port 4002; a private network namespace keeps concurrent runs of the
# suite on this machine from colliding (falls back to a plain run where unshare is not permitted).
NS=""
unshare -n true 2>/dev/null && NS="unshare -n --"
attempt() {
(cd "$DIR" && $NS go test -json -vet=off -count=1 -timeout 25m ./... ) > "$OUT" 2>/dev/null
python3 - "$OUT" <<'PY'
import json,sys
base=json.load(open('/root/.vp/BASELINE.json'))
want=set(base['stable_pass'])
res={}
for line in open(sys.argv[1]):
    try: e=json.loads(line)
    except Exception: continue
    if e.get('Action') in ('pass','fail') and e.get('Test'):
        res[e['Package']+'::'+e['Test']]=e['Action']
passed={k for k,v in res.items() if v=='pass'}
missing=sorted(want-passed)
newfail=sorted(k for k,v in res.items() if v=='fail' and k not in set(base.get('always_fail',[])))
print(f"baseline: {len(want&passed)}/{len(want)} stable tests pass; failing now (not in always_fail): {len(newfail)}")
for m in missing[:20]: print("  MISSING/FAILED:",m)
for m in newfail[:20]: print("  NEW FAIL:",m)
sys.exit(1 if missing else 0)
PY
}
# TestFlame_Run binds the fixed port 2830: a concurrent run of the suite elsewhere on this machine makes
# the whole test binary exit. Retry a few times before believing a failure.
for try in 1 2 3 4; do
  res=$(attempt); rc=$?
  [ $rc -eq 0 ] && break
  sleep $((RANDOM % 5 + 1))
done
echo "$res"
rm -f "$OUT"
exit $rc
