#!/bin/bash
# re-confirms every seeded change with the current checks (3 parallel streams); logs to /tmp/reintake_<n>.log
cd "$(dirname "$0")/.."
ids=$(ls /tmp/seed_C*/_out/mutant*.diff | sed -E 's#/tmp/seed_(C[0-9]+)/_out/mutant([0-9]+).diff#\1:\2#' | sort)
n=0
for s in 0 1 2; do
  ( i=0; for x in $ids; do if [ $((i % 3)) -eq $s ]; then tools/seed_intake.sh ${x%%:*} ${x##*:}; fi; i=$((i+1)); done ) > /tmp/reintake_$s.log 2>&1 &
done
wait
