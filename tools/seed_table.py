#!/usr/bin/env python3
"""prints the markdown table of seeded changes from /verif/seeded/*/meta.json"""
import json,glob,os,re
rows=[]
for d in sorted(glob.glob('/verif/seeded/*/')):
    m=json.load(open(d+'meta.json'))
    name=os.path.basename(d.rstrip('/'))
    notes=open(d+'notes.md').read() if os.path.exists(d+'notes.md') else ''
    first=''
    for l in notes.splitlines():
        l=l.strip('# ').strip()
        if len(l)>25:
            first=l; break
    what=m.get('summary') or first
    what=re.sub(r'\s+',' ',what)[:170]
    caught=m.get('caught_by',[])
    if m.get('superseded'):
        rows.append((name,m['breaks_property'],what,'n/a: neutralised by a later fix commit (see meta.json)', m.get('tier','quick'), m.get('strengthened','')))
        continue
    own=m['breaks_property'] in caught
    rows.append((name,m['breaks_property'],what,', '.join(caught) if caught else '**missed**', m.get('tier','quick'), m.get('strengthened','')))
print("| Seeded change | Property | What it does / needs | Caught by | Tier | Strengthening it triggered |")
print("|---|---|---|---|---|---|")
for r in rows: print("| "+" | ".join(r)+" |")
live=[r for r in rows if not r[3].startswith('n/a')]
print(f"\n{sum(1 for r in live if r[3]!='**missed**')} of {len(live)} seeded changes that still break a property on the current tree are caught ({len(rows)-len(live)} neutralised by a later fix).")
