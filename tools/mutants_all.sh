#!/bin/bash
# usage: tools/mutants_all.sh [tier] [glob]   — runs every own mutant diff (or those matching glob) against its
# property's check; prints one line per mutant. Parallel: 3 mutants at a time.
tier=${1:-quick}; pat=${2:-*}
cd "$(dirname "$0")/.."
run1() {
  f=$1; tier=$2
  name=$(basename $f .diff); prop=${name%%-*}
  out=$(tools/mutant_run.sh $f $tier $prop 2>&1)
  suite=$(echo "$out" | grep -E "suite:|SUITE" | head -1)
  caught=$(echo "$out" | grep '^CAUGHT-BY:' | sed 's/CAUGHT-BY://')
  kind=$(echo "$out" | grep -m1 'kind=' | sed 's/ *kind=//')
  echo "$name | suite: ${suite#suite: } | caught by:${caught:- NONE} | $kind"
}
export -f run1
ls mutants/$pat.diff | xargs -P 3 -I{} bash -c "run1 {} $tier"
