#!/bin/bash
# usage: tools/sweep_par.sh <tier> <seed>   — runs every check at one seed in three parallel streams
# (long ones first), prints one line per run; exit 1 if any run did not hold
tier=$1; s=$2
cd "$(dirname "$0")/.."
one() { p=$1
  out=$(VERIF_SEED=$s VERIF_NO_EVIDENCE=1 ./check $p $tier 2>&1); rc=$?
  echo "seed=$s $p rc=$rc $(echo "$out" | grep -E 'seed=' | tail -1)"
  if [ $rc -ne 0 ]; then echo "$out" | grep -E -A3 'VIOLATION|INCONCLUSIVE' | cut -c1-400 | head -20; fi
  return $rc
}
./check --setup >/dev/null 2>&1
( for p in C05 C09 C11 C12 C13 C02; do one $p || echo BAD; done ) > /tmp/sweep_par_a.$$ 2>&1 &
( for p in C01 C10 C14 C16 C04 C06; do one $p || echo BAD; done ) > /tmp/sweep_par_b.$$ 2>&1 &
( for p in C15 C07 C08 C18 C17 C03; do one $p || echo BAD; done ) > /tmp/sweep_par_c.$$ 2>&1 &
wait
cat /tmp/sweep_par_a.$$ /tmp/sweep_par_b.$$ /tmp/sweep_par_c.$$
bad=$(cat /tmp/sweep_par_a.$$ /tmp/sweep_par_b.$$ /tmp/sweep_par_c.$$ | grep -c '^BAD')
rm -f /tmp/sweep_par_a.$$ /tmp/sweep_par_b.$$ /tmp/sweep_par_c.$$
[ "$bad" = 0 ]
