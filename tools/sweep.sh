#!/bin/bash
# usage: tools/sweep.sh <tier> <seeds...>   — runs every check at the given seeds, prints one line per run
tier=$1; shift
cd "$(dirname "$0")/.."
for s in "$@"; do
  for p in C01 C02 C03 C04 C05 C06 C07 C08 C09 C10 C11 C12 C13 C14 C15 C16 C17 C18; do
    out=$(VERIF_SEED=$s VERIF_NO_EVIDENCE=1 ./check $p $tier 2>&1); rc=$?
    echo "seed=$s $p rc=$rc $(echo "$out" | grep -E 'seed=' | tail -1)"
    if [ $rc -ne 0 ]; then echo "$out" | grep -E -A3 'VIOLATION|INCONCLUSIVE' | cut -c1-400 | head -20; bad=1; fi
  done
done
exit ${bad:-0}
