package core

import (
	"encoding/hex"
	"encoding/json"
	"unicode/utf8"
)

// B is a byte string that survives JSON: valid UTF-8 is written as a plain
// JSON string, anything else as {"hex":"…"} (encoding/json would otherwise
// replace invalid bytes by U+FFFD and a replay would not be the same case).
type B string

func (b B) MarshalJSON() ([]byte, error) {
	if utf8.ValidString(string(b)) {
		return json.Marshal(string(b))
	}
	return json.Marshal(map[string]string{"hex": hex.EncodeToString([]byte(b))})
}

func (b *B) UnmarshalJSON(data []byte) error {
	var s string
	if err := json.Unmarshal(data, &s); err == nil {
		*b = B(s)
		return nil
	}
	var m map[string]string
	if err := json.Unmarshal(data, &m); err != nil {
		return err
	}
	raw, err := hex.DecodeString(m["hex"])
	if err != nil {
		return err
	}
	*b = B(raw)
	return nil
}

// Bs converts a string slice.
func Bs(ss []string) []B {
	out := make([]B, len(ss))
	for i, s := range ss {
		out[i] = B(s)
	}
	return out
}

// Ss converts back.
func Ss(bs []B) []string {
	out := make([]string, len(bs))
	for i, s := range bs {
		out[i] = string(s)
	}
	return out
}

// BMap converts a map of strings.
func BMap(m map[string]string) map[string]B {
	out := make(map[string]B, len(m))
	for k, v := range m {
		out[k] = B(v)
	}
	return out
}
