// Package core is the shared runtime of the flamego runtime monitors: seeded
// case streams, worker pool, three-valued verdicts, replay files, coverage
// gates, oracle canaries, known-findings bookkeeping and evidence output.
package core

import (
	"encoding/json"
	"fmt"
	"hash/fnv"
	"math/rand"
	"os"
	"os/exec"
	"path/filepath"
	"runtime"
	"runtime/debug"
	"sort"
	"strconv"
	"strings"
	"sync"
	"sync/atomic"
	"time"
)

// ---------------------------------------------------------------------------
// PRNG: splitmix64, cheap to seed so that every case owns its own stream and
// the case list is independent of how cases are spread over workers.

type sm64 struct{ s uint64 }

func (x *sm64) Uint64() uint64 {
	x.s += 0x9e3779b97f4a7c15
	z := x.s
	z = (z ^ (z >> 30)) * 0xbf58476d1ce4e5b9
	z = (z ^ (z >> 27)) * 0x94d049bb133111eb
	return z ^ (z >> 31)
}
func (x *sm64) Int63() int64    { return int64(x.Uint64() >> 1) }
func (x *sm64) Seed(seed int64) { x.s = uint64(seed) }

func mix(a, b uint64) uint64 {
	x := sm64{s: a ^ (b * 0x9e3779b97f4a7c15)}
	x.Uint64()
	return x.Uint64()
}

// Hash64 is a stable string hash (FNV-1a).
func Hash64(parts ...string) uint64 {
	h := fnv.New64a()
	for _, p := range parts {
		h.Write([]byte(p))
		h.Write([]byte{0})
	}
	return h.Sum64()
}

// ---------------------------------------------------------------------------

const (
	ExitHeld         = 0
	ExitViolation    = 1
	ExitInconclusive = 2
)

// Finding is one line of /verif/known_findings.txt.
type Finding struct {
	Status   string // "open" | "fixed"
	Property string
	Commit   string
	What     string
	ID       string
	Kind     string          // witness kind
	Witness  json.RawMessage // witness case
}

// Run is one invocation of one property's monitor.
type Run struct {
	violations int64 // first field: 64-bit atomics need 8-byte alignment on 32-bit platforms
	serialStop chan struct{}

	Prop    string
	Tier    string
	Seed    int64
	Workers int
	Root    string // /verif
	Hooks   string // "on" | "off (...)"
	Race    bool
	Quiet   bool // count violations without printing or writing replays (pinned open findings)

	start time.Time

	mu         sync.Mutex
	evals      int64
	nontrivial map[uint64]struct{}
	counters   map[string]int64
	samples    []interface{}
	ntSamples  []interface{}
	vioShown   int
	known      map[string]int64
	gates      []gate
	canOK      int
	canTotal   int
	notes      []string
	assume     []string
	extra      map[string]interface{}
	rule       string
	exhaustive bool
	inconcl    []string

	findings []Finding

	// progress slots for the supervisor
	slots []slot

	replaying bool
}

type gate struct {
	name     string
	got, min int64
}

type slot struct {
	mu    sync.Mutex
	seq   uint64
	kind  string
	c     interface{}
	since time.Time
	busy  bool
}

// W is a worker-local view with cheap, unsynchronised statistics that are
// merged into the Run at the end of a Parallel section.
type W struct {
	R          *Run
	ID         int
	evals      int64
	nontrivial map[uint64]struct{}
	counters   map[string]int64
	samples    []interface{}
	ntSamples  []interface{}
	curSeed    uint64
}

// NewRun reads the environment set up by ./check.
func NewRun(prop, tier string) *Run {
	seed := int64(1)
	if s := os.Getenv("VERIF_SEED"); s != "" {
		if v, err := strconv.ParseInt(s, 10, 64); err == nil {
			seed = v
		}
	}
	root := os.Getenv("VERIF_ROOT")
	if root == "" {
		root = "/verif"
	}
	workers := runtime.NumCPU()
	if s := os.Getenv("VERIF_WORKERS"); s != "" {
		if v, err := strconv.Atoi(s); err == nil && v > 0 {
			workers = v
		}
	}
	r := &Run{
		Prop: prop, Tier: tier, Seed: seed, Workers: workers, Root: root,
		start:      time.Now(),
		nontrivial: map[uint64]struct{}{},
		counters:   map[string]int64{},
		known:      map[string]int64{},
		extra:      map[string]interface{}{},
		Hooks:      os.Getenv("VERIF_HOOKS"),
	}
	if r.Hooks == "" {
		r.Hooks = "unknown"
	}
	r.findings = loadFindings(filepath.Join(root, "known_findings.txt"))
	if n := os.Getenv("VERIF_EXTRA_NOTE"); n != "" {
		r.notes = append(r.notes, n)
	}
	if pf := os.Getenv("VERIF_PLATFORM"); pf != "" {
		r.notes = append(r.notes, "this pass runs on GOARCH="+pf)
	}
	return r
}

// Thorough reports whether the thorough tier was requested.
func (r *Run) Thorough() bool { return r.Tier == "thorough" }

// N picks the case count of the tier; VERIF_SCALE (float) scales both for
// experiments and never applies to registered commands.
func (r *Run) N(quick, thorough int) int {
	n := quick
	if r.Thorough() {
		n = thorough
	}
	if s := os.Getenv("VERIF_SCALE"); s != "" {
		if f, err := strconv.ParseFloat(s, 64); err == nil && f > 0 {
			n = int(float64(n) * f)
			if n < 1 {
				n = 1
			}
		}
	}
	return n
}

// Rand returns the PRNG of case i of stream `stream` for this run's seed.
func (r *Run) Rand(stream string, i int) *rand.Rand {
	s := mix(mix(uint64(r.Seed), Hash64(r.Prop, stream)), uint64(i)+1)
	return rand.New(&sm64{s: s})
}

// Parallel runs fn for i in [0,n) on the worker pool. Each call gets a worker
// view; statistics are merged afterwards. A panic inside fn that is not
// handled by the monitor is reported as a violation with the published case.
func (r *Run) Parallel(stream string, n int, fn func(w *W, rng *rand.Rand, i int)) {
	if n <= 0 {
		return
	}
	nw := r.Workers
	if nw > n {
		nw = n
	}
	if r.slots == nil {
		r.slots = make([]slot, r.Workers)
	}
	var next int64
	const chunk = 16
	var wg sync.WaitGroup
	stop := make(chan struct{})
	go r.supervise(stop)
	for wi := 0; wi < nw; wi++ {
		wg.Add(1)
		go func(wi int) {
			defer wg.Done()
			w := &W{R: r, ID: wi, nontrivial: map[uint64]struct{}{}, counters: map[string]int64{}}
			for {
				lo := int(atomic.AddInt64(&next, chunk)) - chunk
				if lo >= n {
					break
				}
				hi := lo + chunk
				if hi > n {
					hi = n
				}
				for i := lo; i < hi; i++ {
					if atomic.LoadInt64(&r.violations) >= 50 {
						break // enough witnesses; stop exploring
					}
					w.runOne(stream, i, fn)
				}
			}
			r.merge(w)
		}(wi)
	}
	wg.Wait()
	close(stop)
}

func (w *W) runOne(stream string, i int, fn func(w *W, rng *rand.Rand, i int)) {
	defer func() {
		if p := recover(); p != nil {
			sl := &w.R.slots[w.ID]
			sl.mu.Lock()
			c, kind := sl.c, sl.kind
			sl.mu.Unlock()
			w.Violate("unexpected-panic:"+kind, c, fmt.Sprintf("panic outside any expected place: %v\n%s", p, trimStack(debug.Stack())))
		}
		w.Done()
	}()
	fn(w, w.R.Rand(stream, i), i)
}

func trimStack(b []byte) string {
	s := string(b)
	if len(s) > 3000 {
		s = s[:3000] + "…"
	}
	return s
}

// Begin publishes the case a worker is about to execute (for the hang
// supervisor and for panic attribution).
func (w *W) Begin(kind string, c interface{}) {
	sl := &w.R.slots[w.ID]
	sl.mu.Lock()
	sl.seq++
	sl.kind, sl.c, sl.since, sl.busy = kind, c, time.Now(), true
	sl.mu.Unlock()
}

// Done marks the worker idle.
func (w *W) Done() {
	if w.R.slots == nil {
		return
	}
	sl := &w.R.slots[w.ID]
	sl.mu.Lock()
	sl.busy = false
	sl.c = nil
	sl.mu.Unlock()
}

// supervise detects a case that does not return. The wall clock is used only
// to decide that a case deserves an isolated re-run; the verdict comes from
// that re-run (violation for properties whose statement includes termination,
// inconclusive otherwise).
func (r *Run) supervise(stop chan struct{}) {
	if r.replaying {
		return
	}
	t := time.NewTicker(2 * time.Second)
	defer t.Stop()
	for {
		select {
		case <-stop:
			return
		case <-t.C:
		}
		for i := range r.slots {
			sl := &r.slots[i]
			sl.mu.Lock()
			stuck := sl.busy && time.Since(sl.since) > 25*time.Second
			kind, c := sl.kind, sl.c
			sl.mu.Unlock()
			if !stuck {
				continue
			}
			path := r.writeReplay("hang:"+kind, kind, c, "case did not return within 25s in the main run; isolated re-run follows")
			exe, _ := os.Executable()
			cmd := exec.Command("timeout", "-s", "KILL", "90", exe, "-replay", path)
			cmd.Env = append(os.Environ(), "VERIF_REPLAY_CHILD=1")
			out, err := cmd.CombinedOutput()
			hung := false
			if ee, ok := err.(*exec.ExitError); ok && (ee.ExitCode() == 137 || ee.ExitCode() == 124 || ee.ExitCode() < 0) {
				hung = true
			}
			if hung && (r.Prop == "C06" || r.Prop == "C07" || r.Prop == "C15" || r.Prop == "C16") { // properties whose statement includes that the call returns (C15: "the client gets status 500"; C16: Static serves or leaves the request to the rest of the chain)
				fmt.Printf("VIOLATION property=%s replay=%s\n", r.Prop, path)
				fmt.Printf("  kind=hang:%s case does not return (also not in an isolated 90s re-run)\n", kind)
				atomic.AddInt64(&r.violations, 1)
				r.finishAndExit()
			}
			if hung {
				r.Inconclusive("case of kind " + kind + " does not return; see " + path)
				r.finishAndExit()
			}
			if err != nil && strings.Contains(string(out), "VIOLATION") {
				fmt.Print(string(out))
				atomic.AddInt64(&r.violations, 1)
				r.finishAndExit()
			}
			// returned on re-run: scheduling hiccup; keep going but do not re-check this slot immediately
			_ = os.Remove(path)
			sl.mu.Lock()
			sl.since = time.Now()
			sl.mu.Unlock()
		}
	}
}

func (r *Run) finishAndExit() {
	os.Exit(r.Finish())
}

func (r *Run) merge(w *W) {
	r.mu.Lock()
	defer r.mu.Unlock()
	r.evals += w.evals
	for k := range w.nontrivial {
		r.nontrivial[k] = struct{}{}
	}
	for k, v := range w.counters {
		r.counters[k] += v
	}
	for _, s := range w.samples {
		if len(r.samples) < 4 {
			r.samples = append(r.samples, s)
		}
	}
	for _, s := range w.ntSamples {
		if len(r.ntSamples) < 4 {
			r.ntSamples = append(r.ntSamples, s)
		}
	}
}

// Serial returns a worker view for single-threaded sections; call Merge when done.
func (r *Run) Serial() *W {
	if r.slots == nil {
		r.slots = make([]slot, r.Workers)
	}
	return &W{R: r, ID: 0, nontrivial: map[uint64]struct{}{}, counters: map[string]int64{}}
}

// SerialSupervised is Serial with the hang supervisor watching the section (cases there must Begin often enough:
// a case that stays silent for 25 s is re-run in isolation). Merge ends the supervision.
func (r *Run) SerialSupervised() *W {
	w := r.Serial()
	if r.serialStop == nil {
		r.serialStop = make(chan struct{})
		go r.supervise(r.serialStop)
	}
	return w
}

// Merge folds a Serial() worker view into the run.
func (w *W) Merge() {
	if w.R.serialStop != nil {
		close(w.R.serialStop)
		w.R.serialStop = nil
	}
	w.R.merge(w)
}

// Eval counts one executed case.
func (w *W) Eval() { w.evals++ }

// EvalN counts n executed cases.
func (w *W) EvalN(n int) { w.evals += int64(n) }

// Count bumps a named counter.
func (w *W) Count(name string) { w.counters[name]++ }

// CountN bumps a named counter by n.
func (w *W) CountN(name string, n int) { w.counters[name] += int64(n) }

// NonTrivial records the fingerprint of a case that is non-trivial by the
// property's rule; sample (may be nil) is kept for the evidence file.
func (w *W) NonTrivial(fp uint64, sample func() interface{}) {
	if _, ok := w.nontrivial[fp]; ok {
		return
	}
	w.nontrivial[fp] = struct{}{}
	if sample != nil && len(w.ntSamples) < 2 {
		w.ntSamples = append(w.ntSamples, sample())
	}
}

// Sample keeps a few ordinary cases for the evidence file.
func (w *W) Sample(sample func() interface{}) {
	if len(w.samples) < 2 {
		w.samples = append(w.samples, sample())
	}
}

// Violate records a violation with its concrete case. If the case is
// attributable to an open known finding the caller must use Known instead.
func (w *W) Violate(kind string, c interface{}, detail string) {
	caseKind := ""
	if w.R.slots != nil {
		sl := &w.R.slots[w.ID]
		sl.mu.Lock()
		caseKind = sl.kind
		sl.mu.Unlock()
	}
	w.R.violate(kind, caseKind, c, detail)
}

func (r *Run) violate(kind, caseKind string, c interface{}, detail string) {
	n := atomic.AddInt64(&r.violations, 1)
	if r.Quiet {
		return
	}
	r.mu.Lock()
	defer r.mu.Unlock()
	if r.vioShown >= 5 {
		return
	}
	r.vioShown++
	if r.replaying {
		fmt.Printf("VIOLATION property=%s replay=%s\n", r.Prop, os.Getenv("VERIF_REPLAY_FILE"))
		fmt.Printf("  kind=%s\n  %s\n", kind, strings.ReplaceAll(detail, "\n", "\n  "))
		return
	}
	path := r.writeReplayLocked(kind, caseKind, c, detail, int(n))
	fmt.Printf("VIOLATION property=%s replay=%s\n", r.Prop, path)
	fmt.Printf("  kind=%s\n  %s\n", kind, strings.ReplaceAll(detail, "\n", "\n  "))
}

// Replay is the on-disk form of a witness.
type Replay struct {
	Property string          `json:"property"`
	Kind     string          `json:"kind"`
	Reported string          `json:"reported_as"`
	Seed     int64           `json:"seed"`
	Tier     string          `json:"tier"`
	Detail   string          `json:"detail"`
	Case     json.RawMessage `json:"case"`
}

func (r *Run) writeReplay(reported, kind string, c interface{}, detail string) string {
	r.mu.Lock()
	defer r.mu.Unlock()
	return r.writeReplayLocked(reported, kind, c, detail, int(time.Now().UnixNano()%100000))
}

func (r *Run) writeReplayLocked(reported, kind string, c interface{}, detail string, n int) string {
	dir := filepath.Join(r.Root, "replays")
	_ = os.MkdirAll(dir, 0o755)
	path := filepath.Join(dir, fmt.Sprintf("%s-%s-%d-%d.json", r.Prop, r.Tier, r.Seed, n))
	raw, err := json.Marshal(c)
	if err != nil {
		raw, _ = json.Marshal(fmt.Sprintf("unserialisable case: %v (%+v)", err, c))
	}
	rp := Replay{Property: r.Prop, Kind: kind, Reported: reported, Seed: r.Seed, Tier: r.Tier, Detail: detail, Case: raw}
	b, _ := json.MarshalIndent(rp, "", " ")
	_ = os.WriteFile(path, b, 0o644)
	return path
}

// Pending writes the case about to run to the file named by VERIF_PENDING_FILE (if set) in replay format, before it
// runs: a fault that ends the whole process (the Go runtime's "fatal error: concurrent map writes" cannot be
// recovered) leaves the input on disk, and the entry script turns it into the witness. ClearPending removes it.
func (r *Run) Pending(kind string, c interface{}) {
	path := os.Getenv("VERIF_PENDING_FILE")
	if path == "" || r.replaying {
		return
	}
	raw, _ := json.Marshal(c)
	rp := Replay{Property: r.Prop, Kind: kind, Reported: "process-ended-by-runtime-fault", Seed: r.Seed, Tier: r.Tier, Case: raw}
	b, _ := json.MarshalIndent(rp, "", " ")
	_ = os.WriteFile(path, b, 0o644)
}

func (r *Run) ClearPending() {
	if path := os.Getenv("VERIF_PENDING_FILE"); path != "" && !r.replaying {
		_ = os.Remove(path)
	}
}

// Known records that a deviation was attributed to an open known finding.
func (w *W) Known(id string) {
	w.counters["attributed["+id+"]"]++
}

// Gate registers a coverage gate: the run is inconclusive if got < min.
func (r *Run) Gate(name string, got, min int64) {
	r.mu.Lock()
	r.gates = append(r.gates, gate{name, got, min})
	r.mu.Unlock()
}

// GateCounter gates on a named counter.
func (r *Run) GateCounter(name string, min int64) {
	r.mu.Lock()
	got := r.counters[name]
	r.gates = append(r.gates, gate{name, got, min})
	r.mu.Unlock()
}

// Counter returns the merged value of a counter.
func (r *Run) Counter(name string) int64 {
	r.mu.Lock()
	defer r.mu.Unlock()
	return r.counters[name]
}

// NonTrivialCount returns the number of distinct non-trivial fingerprints so far.
func (r *Run) NonTrivialCount() int64 {
	r.mu.Lock()
	defer r.mu.Unlock()
	return int64(len(r.nontrivial))
}

// Canary feeds the comparator a synthetic violating observation; flagged must be true.
func (r *Run) Canary(name string, flagged bool) {
	r.mu.Lock()
	defer r.mu.Unlock()
	r.canTotal++
	if flagged {
		r.canOK++
	} else {
		r.inconcl = append(r.inconcl, "oracle canary not flagged: "+name)
	}
}

// Inconclusive marks the run inconclusive.
func (r *Run) Inconclusive(reason string) {
	r.mu.Lock()
	r.inconcl = append(r.inconcl, reason)
	r.mu.Unlock()
}

// Note adds a free-text note to the evidence file.
func (r *Run) Note(s string) { r.mu.Lock(); r.notes = append(r.notes, s); r.mu.Unlock() }

// Assume adds an assumption to the evidence file.
func (r *Run) Assume(s string) { r.mu.Lock(); r.assume = append(r.assume, s); r.mu.Unlock() }

// Rule sets the generation / non-triviality rule text.
func (r *Run) Rule(s string) { r.rule = s }

// Extra puts a property-specific key into coverage.
func (r *Run) Extra(k string, v interface{}) { r.mu.Lock(); r.extra[k] = v; r.mu.Unlock() }

// SetExhaustive records that an enumerated sub-space was covered completely.
func (r *Run) SetExhaustive(b bool) { r.exhaustive = b }

// Violations returns the number of violations so far.
func (r *Run) Violations() int64 { return atomic.LoadInt64(&r.violations) }

// Findings returns the known-findings entries of this property.
func (r *Run) Findings() []Finding {
	var out []Finding
	for _, f := range r.findings {
		if f.Property == r.Prop {
			out = append(out, f)
		}
	}
	return out
}

// ReportOpenFinding prints the KNOWN-FINDING line for a still failing open finding.
func (r *Run) ReportOpenFinding(f Finding) {
	fmt.Printf("KNOWN-FINDING: property=%s %s\n", f.Property, f.What)
	r.mu.Lock()
	r.known[f.ID]++
	r.mu.Unlock()
}

// Finish evaluates gates, writes the evidence file and returns the exit code.
func (r *Run) Finish() int {
	r.mu.Lock()
	defer r.mu.Unlock()
	vio := atomic.LoadInt64(&r.violations)
	for _, g := range r.gates {
		if g.got < g.min {
			r.inconcl = append(r.inconcl, fmt.Sprintf("coverage gate %q missed: %d < %d", g.name, g.got, g.min))
		}
	}
	if r.replaying {
		if vio > 0 {
			return ExitViolation
		}
		fmt.Printf("replay: case held on the current tree (property=%s)\n", r.Prop)
		return ExitHeld
	}
	samples := append([]interface{}{}, r.ntSamples...)
	samples = append(samples, r.samples...)
	if len(samples) > 6 {
		samples = samples[:6]
	}
	if len(samples) == 0 {
		samples = append(samples, "no case executed")
	}
	cov := map[string]interface{}{
		"evaluations":         r.evals,
		"distinct_nontrivial": len(r.nontrivial),
		"rule":                r.rule,
		"samples":             samples,
		"counters":            r.counters,
		"canaries":            fmt.Sprintf("%d/%d", r.canOK, r.canTotal),
		"hooks":               r.Hooks,
		"race_detector":       r.Race,
		"workers":             r.Workers,
	}
	if r.exhaustive {
		cov["exhaustive"] = true
	}
	gs := map[string]string{}
	for _, g := range r.gates {
		gs[g.name] = fmt.Sprintf("%d (min %d)", g.got, g.min)
	}
	cov["gates"] = gs
	if len(r.known) > 0 {
		cov["known_findings_reported"] = r.known
	}
	if len(r.notes) > 0 {
		cov["notes"] = r.notes
	}
	for k, v := range r.extra {
		cov[k] = v
	}
	verdict := "held on what was observed"
	if vio > 0 {
		verdict = "violated"
	} else if len(r.inconcl) > 0 {
		verdict = "inconclusive"
		cov["inconclusive_reasons"] = r.inconcl
	}
	cov["verdict"] = verdict
	ev := map[string]interface{}{
		"property_id": r.Prop,
		"tier":        r.Tier,
		"seed":        r.Seed,
		"level":       "exploration",
		"coverage":    cov,
		"assumptions": r.assume,
		"wall_s":      float64(int(time.Since(r.start).Seconds()*100)) / 100,
		"violations":  vio,
	}
	if ev["assumptions"] == nil || len(r.assume) == 0 {
		ev["assumptions"] = []string{}
	}
	b, _ := json.MarshalIndent(ev, "", " ")
	dir := filepath.Join(r.Root, "evidence")
	_ = os.MkdirAll(dir, 0o755)
	if os.Getenv("VERIF_NO_EVIDENCE") == "" {
		_ = os.WriteFile(filepath.Join(dir, r.Prop+".json"), append(b, '\n'), 0o644)
	}

	// human summary
	keys := make([]string, 0, len(r.counters))
	for k := range r.counters {
		keys = append(keys, k)
	}
	sort.Strings(keys)
	fmt.Printf("[%s %s seed=%d] evaluations=%d distinct_nontrivial=%d canaries=%d/%d hooks=%s wall=%.1fs\n",
		r.Prop, r.Tier, r.Seed, r.evals, len(r.nontrivial), r.canOK, r.canTotal, r.Hooks, time.Since(r.start).Seconds())
	if os.Getenv("VERIF_VERBOSE") != "" {
		for _, k := range keys {
			fmt.Printf("    %-50s %d\n", k, r.counters[k])
		}
	}
	if vio > 0 {
		fmt.Printf("[%s] verdict: VIOLATED (%d violating cases)\n", r.Prop, vio)
		return ExitViolation
	}
	if len(r.inconcl) > 0 {
		for _, s := range r.inconcl {
			fmt.Printf("INCONCLUSIVE property=%s reason=%s\n", r.Prop, s)
		}
		return ExitInconclusive
	}
	fmt.Printf("[%s] verdict: held on what was observed\n", r.Prop)
	return ExitHeld
}

// SetReplaying switches the run into single-case replay mode.
func (r *Run) SetReplaying() { r.replaying = true }

// ---------------------------------------------------------------------------
// known findings file: one entry per line,
//   open: property=C08 id=KF-x <what fails> ## kind=<kind> witness=<json>
//   fixed: property=C08 <commit> <what failed> ## kind=<kind> witness=<json>

func loadFindings(path string) []Finding {
	b, err := os.ReadFile(path)
	if err != nil {
		return nil
	}
	var out []Finding
	for _, line := range strings.Split(string(b), "\n") {
		line = strings.TrimSpace(line)
		if line == "" || strings.HasPrefix(line, "#") {
			continue
		}
		var f Finding
		head := line
		if i := strings.Index(line, " ## "); i >= 0 {
			head = line[:i]
			tail := line[i+4:]
			if j := strings.Index(tail, " witness="); j >= 0 && strings.HasPrefix(tail, "kind=") {
				f.Kind = tail[len("kind="):j]
				f.Witness = json.RawMessage(tail[j+len(" witness="):])
			}
		}
		switch {
		case strings.HasPrefix(head, "open: "):
			f.Status = "open"
			head = head[len("open: "):]
		case strings.HasPrefix(head, "fixed: "):
			f.Status = "fixed"
			head = head[len("fixed: "):]
		default:
			continue
		}
		fields := strings.SplitN(head, " ", 3)
		if len(fields) < 3 || !strings.HasPrefix(fields[0], "property=") {
			continue
		}
		f.Property = fields[0][len("property="):]
		if f.Status == "fixed" {
			f.Commit = fields[1]
			f.ID = "fixed-" + fields[1]
		} else {
			f.ID = strings.TrimPrefix(fields[1], "id=")
		}
		f.What = fields[2]
		out = append(out, f)
	}
	return out
}
