// vcheck runs one property's runtime monitor (see /verif/DESIGN.md).
package main

import (
	"encoding/json"
	"flag"
	"fmt"
	"os"

	"github.com/flamego/flamego/verifharness/checks"
	"github.com/flamego/flamego/verifharness/core"
)

func main() {
	prop := flag.String("prop", "", "property id (C01..C18)")
	tier := flag.String("tier", "quick", "quick|thorough")
	replay := flag.String("replay", "", "replay file")
	flag.Parse()

	if *replay != "" {
		b, err := os.ReadFile(*replay)
		if err != nil {
			fmt.Println("cannot read replay file:", err)
			os.Exit(core.ExitInconclusive)
		}
		var rp core.Replay
		if err := json.Unmarshal(b, &rp); err != nil {
			fmt.Println("cannot parse replay file:", err)
			os.Exit(core.ExitInconclusive)
		}
		c, ok := checks.Registry[rp.Property]
		if !ok {
			fmt.Println("unknown property in replay file:", rp.Property)
			os.Exit(core.ExitInconclusive)
		}
		if rp.Seed != 0 {
			os.Setenv("VERIF_SEED", fmt.Sprint(rp.Seed))
		}
		os.Setenv("VERIF_REPLAY_FILE", *replay)
		r := core.NewRun(rp.Property, "quick")
		r.SetReplaying()
		w := r.Serial()
		c.Replay(w, rp.Kind, rp.Case)
		w.Merge()
		os.Exit(r.Finish())
	}

	c, ok := checks.Registry[*prop]
	if !ok {
		fmt.Println("unknown property:", *prop)
		os.Exit(64)
	}
	r := core.NewRun(*prop, *tier)
	checks.RunPinned(r, c)
	c.Run(r)
	os.Exit(r.Finish())
}
