package checks

import (
	gocontext "context"
	"encoding/json"
	"encoding/xml"
	"errors"
	"fmt"
	"io"
	"math/rand"
	"net"
	"net/http"
	"net/url"
	"os"
	"path/filepath"
	"strings"
	"syscall"

	"github.com/flamego/flamego"
	"github.com/flamego/flamego/verifharness/core"
)

// recCase: a chain with Recovery somewhere, a panic somewhere later, a request sequence (C15).
type recCase struct {
	Env    string      `json:"env"`                                          // development | production | test
	OSEnv  string      `json:"FLAMEGO_ENV_in_process_environment,omitempty"` // serial cases: the variable the package read once when the process started is (re)set to this before the instance is assembled. The mode is what SetEnv last made it
	Built  string      `json:"assembled_in_env,omitempty"`                   // the instance (incl. Recovery) is assembled while this environment is set, then the environment is switched to Env (serial cases only)
	Pre    int         `json:"pre"`                                          // middleware placed before Recovery
	Mid    []string    `json:"mid"`                                          // handlers between Recovery and the panic site: plain | next | write-next
	Where  string      `json:"where"`                                        // route | action | notfound | group
	Phase  string      `json:"phase"`                                        // before | after-header | after-body
	Kind   string      `json:"kind"`                                         // string | error | runtime | struct | int | abort | dep | nilerr | neterr-* | slice | map | structslice | sliceerr (values of uncomparable types)
	Accept string      `json:"accept,omitempty"`                             // request header: the body of the error response does not depend on it
	Hdrs   [][2]string `json:"further_request_headers,omitempty"`            // client-controlled headers (addresses, hosts, debug switches): the error response does not depend on them either
	Remote string      `json:"remote_addr,omitempty"`                        // Request.RemoteAddr: the peer may be the machine itself
	Query  string      `json:"query,omitempty"`                              // raw query of the panicking requests
	Buffer bool        `json:"buffering_writer_in_front,omitempty"`          // the first middleware (before Recovery) substitutes the http.ResponseWriter service by a buffer and releases it after Next(); Kind may also be nilerr (an error value whose Error method cannot run)
	Method string      `json:"method,omitempty"`                             // GET (default) | HEAD: the error response of a HEAD request has the same status and no body
	Deep   int         `json:"frames_below_the_panic,omitempty"`             // the panicking handler recurses this deep before it panics (the stack Recovery prints is that much longer)
	Inner  bool        `json:"second_recovery_nearer_the_panic,omitempty"`   // a second Recovery sits after the mid handlers, with one more Next()-calling middleware between the two: the panic stops at the inner one, so that middleware (placed before a Recovery) completes as well
	Marker string      `json:"marker"`                                       // unique text carried by the panic value
	Seq    []string    `json:"seq"`                                          // ok | panic …
}

// c15Strict refuses status codes outside 100..999 the way net/http's own writer does: by panicking, before
// anything is sent.
type c15Strict struct{ *retSpy }

func (s c15Strict) WriteHeader(c int) {
	if c < 100 || c > 999 {
		panic(fmt.Sprintf("invalid WriteHeader code %v", c))
	}
	s.retSpy.WriteHeader(c)
}

// c15PanicMarshal: a value whose marshalers panic.
type c15PanicMarshal struct{ M string }

func (v c15PanicMarshal) MarshalJSON() ([]byte, error)                    { panic(v.M) }
func (v c15PanicMarshal) MarshalXML(*xml.Encoder, xml.StartElement) error { panic(v.M) }

type c15Missing struct{ _ int }
type c15Struct struct{ M string }
type c15BadErr struct{ msg string }
type c15StructSlice struct {
	M    string
	Tags []string
}
type c15SliceErr []string

func (e c15SliceErr) Error() string { return strings.Join(e, "+") }

func (e *c15BadErr) Error() string { return e.msg } // panics on a nil receiver

// c15Buffer is a response writer a middleware substitutes for the real one.
type c15Buffer struct {
	h      http.Header
	status int
	body   []byte
}

func (b *c15Buffer) Header() http.Header { return b.h }
func (b *c15Buffer) WriteHeader(c int) {
	if b.status == 0 {
		b.status = c
	}
}
func (b *c15Buffer) Write(p []byte) (int, error) {
	if b.status == 0 {
		b.status = 200
	}
	b.body = append(b.body, p...)
	return len(p), nil
}

func init() {
	register(&Check{ID: "C15", Run: runC15, Replay: func(w *core.W, kind string, raw json.RawMessage) {
		var c recCase
		if err := json.Unmarshal(raw, &c); err != nil {
			w.R.Inconclusive("replay case does not decode: " + err.Error())
			return
		}
		old := flamego.Env()
		flamego.SetEnv(flamego.EnvType(c.Env))
		defer flamego.SetEnv(old)
		defer c15EnterDir()()
		w.Begin("recovery", &c)
		judgeRec(w, &c)
	}})
}

// c15EnterDir: positions given by a //line directive with a relative file name are looked up relative to the
// working directory. The process works in a scratch directory that holds a one-line c15_short.txt, the file the
// directive in c15_linedir.go names (with line 4000).
func c15EnterDir() func() {
	old, _ := os.Getwd()
	dir, err := os.MkdirTemp("", "verif-c15-")
	if err != nil {
		return func() {}
	}
	_ = os.WriteFile(filepath.Join(dir, "c15_short.txt"), []byte("one line only\n"), 0o644)
	_ = os.Mkdir(filepath.Join(dir, "c15_dir"), 0o755)
	_ = os.WriteFile(filepath.Join(dir, "c15_empty.txt"), nil, 0o644)
	_ = os.WriteFile(filepath.Join(dir, "c15_nonl.txt"), []byte("first\nsecond\nthe last line, no newline after it"), 0o644)
	_ = os.WriteFile(filepath.Join(dir, "c15_crlf.txt"), []byte("first\r\nsecond\r\n\r\n"), 0o644)
	_ = os.WriteFile(filepath.Join(dir, "c15_huge.txt"), []byte(strings.Repeat("x", 1<<20)), 0o644)
	_ = os.Chdir(dir)
	return func() {
		_ = os.Chdir(old)
		_ = os.RemoveAll(dir)
	}
}

func genRecCase(rng *rand.Rand, env string) *recCase {
	c := &recCase{Env: env, Pre: rng.Intn(3)}
	for i := rng.Intn(4); i > 0; i-- {
		c.Mid = append(c.Mid, []string{"plain", "next", "next", "write-next", "deadline-next"}[rng.Intn(5)])
	}
	c.Where = []string{"route", "route", "action", "notfound", "group"}[rng.Intn(5)]
	c.Phase = []string{"before", "before", "after-header", "after-body"}[rng.Intn(4)]
	c.Kind = []string{"string", "error", "runtime", "struct", "int", "abort", "dep", "nilerr", "neterr-epipe", "neterr-reset", "slice", "map", "structslice", "sliceerr", "bad-status-writeheader", "bad-status-return", "before-function-panics", "long-cjk", "line-directive", "invoke-non-function", "invoke-nil", "apply-non-struct", "urlpath-unknown-name", "marshal-json-panics", "marshal-xml-panics", "long-function-name"}[rng.Intn(26)]
	c.Method = []string{"GET", "GET", "GET", "HEAD"}[rng.Intn(4)]
	switch x := rng.Intn(200); {
	case x == 0:
		c.Deep = 3000
	case x < 8:
		c.Deep = 300
	case x < 16:
		c.Deep = 100
	}
	if rng.Intn(80) == 0 {
		for i := 40 + rng.Intn(40); i > 0; i-- {
			c.Mid = append(c.Mid, "next") // a long onion of Next() calls between Recovery and the panic
		}
	}
	c.Inner = rng.Intn(5) == 0
	if rng.Intn(6) == 0 {
		// a buffering middleware in front of Recovery; nothing else writes, the panic comes before any write
		c.Buffer = true
		if c.Pre == 0 {
			c.Pre = 1
		}
		c.Phase = "before"
		if c.Where == "action" {
			// with a substituted writer a returned value goes to the buffer, so the context's own writer stays
			// "unwritten" and the chain would run on into the action even for the healthy request
			c.Where = "route"
		}
		for i := range c.Mid {
			if c.Mid[i] == "write-next" {
				c.Mid[i] = "next"
			}
		}
	}
	c.Accept = []string{"", "", "application/json", "text/html", "application/json, text/plain, */*", "*/*"}[rng.Intn(6)]
	if rng.Intn(2) == 0 {
		for n := 1 + rng.Intn(3); n > 0; n-- {
			c.Hdrs = append(c.Hdrs, c15ClientHeaders[rng.Intn(len(c15ClientHeaders))])
		}
	}
	c.Remote = []string{"", "", "192.0.2.1:1234", "127.0.0.1:50412", "[::1]:50412", "127.8.9.1:80", "localhost:1", "@"}[rng.Intn(8)]
	c.Query = []string{"", "", "", "debug=1", "env=development", "FLAMEGO_ENV=development", "trace", "pretty=true&verbose"}[rng.Intn(8)]
	c.Marker = fmt.Sprintf("MK%dZ", 100000+rng.Intn(900000))
	if c.Kind == "int" {
		c.Marker = fmt.Sprint(100000 + rng.Intn(900000))
		if rng.Intn(2) == 0 {
			// an int that happens to be a status code is a panic value like any other
			c.Marker = []string{"403", "418", "404", "400", "401", "500", "503", "200", "204", "302", "999", "100", "0", "-1"}[rng.Intn(14)]
		}
	}
	n := 1 + rng.Intn(4)
	if rng.Intn(40) == 0 {
		n = 20 + rng.Intn(30) // many panics in a row on one instance
	}
	for i := 0; i < n; i++ {
		c.Seq = append(c.Seq, []string{"ok", "panic", "panic"}[rng.Intn(3)])
	}
	c.Seq = append(c.Seq, "panic", "ok")
	return c
}

// c15ClientHeaders: what a client can say about itself. None of it decides how much an error response tells.
var c15ClientHeaders = [][2]string{
	{"X-Real-IP", "127.0.0.1"}, {"X-Real-IP", "::1"}, {"X-Forwarded-For", "127.0.0.1"}, {"X-Forwarded-For", "::1"},
	{"X-Forwarded-For", "127.0.0.1, 203.0.113.7"}, {"X-Forwarded-For", "10.0.0.1"}, {"X-Real-IP", "localhost"},
	{"Forwarded", "for=127.0.0.1;proto=http;host=localhost"}, {"X-Forwarded-Host", "localhost"}, {"X-Forwarded-Proto", "https"},
	{"Host", "localhost"}, {"Origin", "http://localhost:2830"}, {"Referer", "http://127.0.0.1:2830/debug"},
	{"X-Debug", "1"}, {"X-Debug", "true"}, {"Debug", "1"}, {"X-Flamego-Env", "development"}, {"Flamego-Env", "development"},
	{"Cookie", "debug=1; env=development; FLAMEGO_ENV=development"}, {"User-Agent", "curl/8.5.0"}, {"User-Agent", "Go-http-client/1.1"},
	{"Authorization", "Basic YWRtaW46YWRtaW4="}, {"X-Requested-With", "XMLHttpRequest"}, {"Pragma", "debug"},
	{"Content-Type", "application/json"}, {"X-Env", "development"}, {"Via", "1.1 localhost"}, {"Client-IP", "127.0.0.1"},
	{"True-Client-IP", "127.0.0.1"}, {"CF-Connecting-IP", "127.0.0.1"}, {"X-Client-IP", "::1"}, {"X-Cluster-Client-IP", "127.0.0.1"},
}

// markerOf: the text that identifies the panic detail in a development-mode body.
func (c *recCase) markerOf() string {
	switch c.Kind {
	case "runtime":
		return "index out of range [7] with length 3"
	case "abort":
		return "net/http: abort Handler"
	case "dep":
		return "c15Missing"
	case "nilerr":
		return "<nil>"
	case "neterr-epipe":
		return "broken pipe"
	case "neterr-reset":
		return "connection reset by peer"
	case "bad-status-writeheader", "bad-status-return":
		return "invalid WriteHeader code 42"
	case "invoke-non-function", "invoke-nil", "apply-non-struct":
		return "c15_recovery.go" // whatever the misuse raises, the stack names the handler's source file: shown in development, never otherwise
	}
	return c.Marker
}

type recObs struct {
	saved   string // X-Session-Saved as it reached the client
	escaped interface{}
	status  int
	body    string
	events  []string
}

// recVerdict judges one panicking request.
func recVerdict(c *recCase, o recObs) string {
	if o.escaped != nil {
		return fmt.Sprintf("panic escaped ServeHTTP: %v", o.escaped)
	}
	// what had been sent before the panic
	prefix := ""
	wantStatus := 0
	for i, m := range c.Mid {
		if m == "write-next" {
			prefix += fmt.Sprintf("m%d;", i)
			if wantStatus == 0 {
				wantStatus = 200
			}
		}
	}
	if c.Kind != "dep" { // an unresolvable dependency: the handler body, hence its phase writes, never runs
		switch c.Phase {
		case "after-header":
			if wantStatus == 0 {
				wantStatus = 201
			}
		case "after-body":
			if wantStatus == 0 {
				wantStatus = 200
			}
			prefix += "pb;"
		}
	}
	if wantStatus == 0 && (c.Kind == "marshal-json-panics" || c.Kind == "marshal-xml-panics") {
		wantStatus = 202 // the render had sent its status when the value's marshaler panicked
	}
	if wantStatus == 0 {
		wantStatus = 500
	}
	if o.status != wantStatus {
		return fmt.Sprintf("status %d, want %d (500 iff nothing had been sent before the panic)", o.status, wantStatus)
	}
	if c.Method == "HEAD" {
		if o.body != "" {
			return fmt.Sprintf("HEAD request: body %q was forwarded", clip(o.body))
		}
		prefix = ""
		o.body = ""
	}
	if c.Method != "HEAD" && !strings.HasPrefix(o.body, prefix) {
		return fmt.Sprintf("body %q lost what had been written before the panic (%q)", clip(o.body), prefix)
	}
	rest := o.body[len(prefix):]
	if c.Method == "HEAD" {
		// nothing of the page can be seen
	} else if c.Env == "development" {
		if !strings.Contains(rest, c.markerOf()) {
			return fmt.Sprintf("development mode: panic detail %q missing from the body %q", c.markerOf(), clip(rest))
		}
	} else {
		if strings.Contains(rest, c.markerOf()) {
			return fmt.Sprintf("%s mode: panic detail %q leaked into the body", c.Env, c.markerOf())
		}
		if rest != "Internal Server Error" {
			return fmt.Sprintf("%s mode: body after the already written part is %q, want the generic text", c.Env, clip(rest))
		}
	}
	// middleware before Recovery completes its code after Next()
	for i := 0; i < c.Pre; i++ {
		pre, post := false, false
		for _, e := range o.events {
			if e == fmt.Sprintf("pre%d", i) {
				pre = true
			}
			if e == fmt.Sprintf("post%d", i) {
				post = true
			}
		}
		if !pre || !post {
			return fmt.Sprintf("middleware %d placed before Recovery: entered=%v, completed its code after Next()=%v", i, pre, post)
		}
	}
	if c.Inner {
		ev := strings.Join(o.events, ",")
		if !strings.Contains(ev, "pre-between") || !strings.Contains(ev, "post-between") {
			return fmt.Sprintf("the middleware between the two Recovery instances (placed before the inner one): events %v - it must be entered and must complete its code after Next()", o.events)
		}
	}
	return ""
}

func clip(s string) string {
	if len(s) > 160 {
		return s[:160] + "…"
	}
	return s
}

// normalize keeps hand-written / replayed cases inside the workload's assumptions.
func (c *recCase) normalize() {
	switch c.Kind {
	case "bad-status-writeheader", "bad-status-return", "before-function-panics":
		// these panics are raised while the FIRST status is being sent (by the underlying writer, which refuses the
		// code, or by a before-function): nothing may have been sent earlier, and the writer must be the real one
		c.Phase, c.Buffer = "before", false
		for i := range c.Mid {
			if c.Mid[i] == "write-next" {
				c.Mid[i] = "next"
			}
		}
	}
	if c.Buffer {
		if c.Pre == 0 {
			c.Pre = 1
		}
		c.Phase = "before"
		if c.Where == "action" {
			c.Where = "route"
		}
		for i := range c.Mid {
			if c.Mid[i] == "write-next" {
				c.Mid[i] = "next"
			}
		}
	}
}

func judgeRec(w *core.W, c *recCase) {
	c.normalize()
	var events []string
	if c.Built != "" {
		flamego.SetEnv(flamego.EnvType(c.Built))
	}
	if c.OSEnv != "" {
		prev, had := os.LookupEnv("FLAMEGO_ENV")
		_ = os.Setenv("FLAMEGO_ENV", c.OSEnv)
		defer func() {
			if had {
				_ = os.Setenv("FLAMEGO_ENV", prev)
			} else {
				_ = os.Unsetenv("FLAMEGO_ENV")
			}
		}()
		w.Count("process-environment-variable-set-after-start")
	}
	f := flamego.NewWithLogger(io.Discard)
	for i := 0; i < c.Pre; i++ {
		i := i
		f.Use(func(ctx flamego.Context, real http.ResponseWriter) {
			events = append(events, fmt.Sprintf("pre%d", i))
			if c.Buffer && i == 0 {
				buf := &c15Buffer{h: http.Header{}}
				ctx.MapTo(buf, (*http.ResponseWriter)(nil))
				ctx.Next()
				// release the buffer to the real writer
				if buf.status != 0 {
					real.WriteHeader(buf.status)
					_, _ = real.Write(buf.body)
				}
				events = append(events, fmt.Sprintf("post%d", i))
				return
			}
			ctx.Next()
			events = append(events, fmt.Sprintf("post%d", i))
		})
	}
	f.Use(flamego.Recovery(), flamego.Renderer())
	// a session-style middleware behind Recovery: what it registers to run before the response goes out (save the
	// session, set its cookie) runs once with whatever response does go out - also the one Recovery sends
	hookRuns := 0
	f.Use(func(ctx flamego.Context) {
		ctx.ResponseWriter().Before(func(rw flamego.ResponseWriter) {
			hookRuns++
			rw.Header().Add("X-Session-Saved", "1")
		})
	})
	armed := false
	// A handler that merely returns after something has been written ends the chain
	// (C03), so the panic site would not be reached: after the first write every
	// handler on the way calls Next().
	wrote := false
	mid := append([]string(nil), c.Mid...)
	for i, m := range mid {
		if wrote && m == "plain" {
			mid[i] = "next"
		}
		if m == "deadline-next" {
			wrote = wrote || false
		}
		if m == "write-next" {
			wrote = true
		}
	}
	filler := func(ctx flamego.Context) {
		if wrote {
			ctx.Next()
		}
	}
	for i, m := range mid {
		i, m := i, m
		f.Use(func(ctx flamego.Context) {
			if !armed {
				return // ok requests pass through untouched
			}
			switch m {
			case "next":
				ctx.Next()
			case "write-next":
				_, _ = ctx.ResponseWriter().Write([]byte(fmt.Sprintf("m%d;", i)))
				ctx.Next()
			case "deadline-next":
				// the usual timeout middleware: the request carries a derived context that is cancelled when this
				// handler is left - also when it is left by a panic. The client is still there and gets its 500.
				ctx2, cancel2 := gocontext.WithCancel(ctx.Request().Context())
				ctx.Request().Request = ctx.Request().WithContext(ctx2)
				defer cancel2()
				ctx.Next()
			}
		})
	}
	if c.Inner {
		f.Use(func(ctx flamego.Context) {
			if !armed {
				return
			}
			events = append(events, "pre-between")
			ctx.Next()
			events = append(events, "post-between")
		})
		f.Use(flamego.Recovery())
	}
	boom := func(ctx flamego.Context) {
		switch c.Phase {
		case "after-header":
			ctx.ResponseWriter().WriteHeader(201)
		case "after-body":
			_, _ = ctx.ResponseWriter().Write([]byte("pb;"))
		}
		switch c.Kind {
		case "string":
			panic(c.Marker)
		case "error":
			panic(errors.New(c.Marker))
		case "runtime":
			s := []int{1, 2, 3}
			k := 7
			_ = s[k]
		case "struct":
			panic(c15Struct{c.Marker})
		case "int":
			var n int
			fmt.Sscan(c.Marker, &n)
			panic(n)
		case "abort":
			panic(http.ErrAbortHandler)
		case "long-function-name":
			// the frames on the panicking stack have names of 60-130 bytes (a long function, a method value of a long type)
			if len(c.Marker)%2 == 0 {
				c15RaiseInAFunctionWhoseNameIsLongerThanAnyColumnAStackPrinterWouldReserveForIt(c.Marker)
			} else {
				fn := c15AReceiverTypeWithALongNameForTheSakeOfTheStackPrinter{}.RaiseFromAMethodValueWhoseNameIsEvenLongerOnceThePackageAndTheTypeAreInFront
				fn(c.Marker)
			}
		case "long-cjk":
			panic(strings.Repeat("\u754c", 120) + c.Marker) // more than 256 bytes, fewer than 256 characters
		case "line-directive":
			c15PanicAt(len(c.Seq)+c.Pre+len(c.Mid), c.Marker) // compiled under //line directives that point past the end of a file, at a directory, through a plain file, at nothing, at an empty file, at one enormous line
		case "bad-status-writeheader":
			ctx.ResponseWriter().WriteHeader(42) // the underlying writer panics, as net/http's does; nothing has been sent
		case "before-function-panics":
			ctx.ResponseWriter().Before(func(flamego.ResponseWriter) { panic(c.Marker) })
			_, _ = ctx.ResponseWriter().Write([]byte("never-sent"))
		case "slice":
			panic([]string{c.Marker})
		case "map":
			panic(map[string]string{"detail": c.Marker})
		case "marshal-json-panics":
			// a value whose marshaler panics, rendered through the Render service: a panic like any other
			_, _ = ctx.Invoke(func(r flamego.Render) { r.JSON(202, c15PanicMarshal{c.Marker}) })
		case "marshal-xml-panics":
			_, _ = ctx.Invoke(func(r flamego.Render) { r.XML(202, c15PanicMarshal{c.Marker}) })
		case "invoke-non-function":
			_, _ = ctx.Invoke("not a function") // misuse of the framework's own API: it panics inside the framework, half-way through whatever it was doing
		case "invoke-nil":
			_, _ = ctx.Invoke(nil)
		case "apply-non-struct":
			n := 7
			_ = ctx.Apply(&n)
			panic(c.Marker) // (Apply on a non-struct may or may not panic by itself)
		case "urlpath-unknown-name":
			_ = ctx.URLPath("no-such-route-" + c.Marker)
		case "structslice":
			panic(c15StructSlice{M: c.Marker, Tags: []string{"a"}})
		case "sliceerr":
			panic(c15SliceErr{c.Marker, "x"})
		case "nilerr":
			var e *c15BadErr
			panic(e)
		case "neterr-epipe":
			panic(&net.OpError{Op: "write", Net: "tcp", Err: os.NewSyscallError("write", syscall.EPIPE)})
		case "neterr-reset":
			panic(&net.OpError{Op: "read", Net: "tcp", Err: os.NewSyscallError("read", syscall.ECONNRESET)})
		}
	}
	if c.Deep > 0 {
		inner := boom
		var rec func(ctx flamego.Context, d int)
		rec = func(ctx flamego.Context, d int) {
			if d == 0 {
				inner(ctx)
				return
			}
			rec(ctx, d-1)
		}
		boom = func(ctx flamego.Context) { rec(ctx, c.Deep) }
	}
	var panicH flamego.Handler = boom
	if c.Kind == "bad-status-return" {
		panicH = func(ctx flamego.Context) (int, string) { boom(ctx); return 42, "never-sent" }
	}
	if c.Kind == "dep" {
		panicH = func(ctx flamego.Context, _ *c15Missing) { boom(ctx) }
	}
	target := "/p"
	switch c.Where {
	case "route":
		f.Routes("/p", "GET,HEAD", panicH)
	case "group":
		f.Group("/g", func() { f.Routes("/p", "GET,HEAD", func(ctx flamego.Context) { ctx.Next() }, panicH) }, filler)
		target = "/g/p"
	case "action":
		f.Routes("/p", "GET,HEAD", filler)
		f.Action(panicH)
	case "notfound":
		f.NotFound(panicH)
		target = "/nowhere"
	}
	f.Get("/ok", func() string { return "fine" })
	if c.Built != "" {
		flamego.SetEnv(flamego.EnvType(c.Env))
		flamego.SetEnv(flamego.EnvType("staging")) // not one of the three environments: documented to be ignored
		flamego.SetEnv(flamego.EnvType(""))
		w.Count("environment-switched-after-assembly")
		if c.OSEnv != "" {
			// another instance is built later in the process (an admin listener, a test helper): building an instance
			// decides nothing about the mode
			_ = flamego.NewWithLogger(io.Discard)
			_ = flamego.New()
		}
	}

	serve := func(path string) recObs {
		events = nil
		spy := &retSpy{h: http.Header{}}
		var o recObs
		func() {
			defer func() { o.escaped = recover() }()
			hdr := http.Header{}
			if c.Accept != "" {
				hdr.Set("Accept", c.Accept)
				hdr.Set("X-Requested-With", "XMLHttpRequest")
			}
			meth := "GET"
			if c.Method == "HEAD" && path != "/ok" {
				meth = "HEAD"
			}
			req := &http.Request{Method: meth, URL: &url.URL{Path: path}, Header: hdr, RequestURI: path}
			if path != "/ok" {
				for _, h := range c.Hdrs {
					if h[0] == "Host" {
						req.Host = h[1]
						continue
					}
					hdr.Add(h[0], h[1])
				}
				req.RemoteAddr = c.Remote
				if c.Query != "" {
					req.URL.RawQuery = c.Query
					req.RequestURI = path + "?" + c.Query
				}
				if len(c.Hdrs) > 0 || c.Remote != "" || c.Query != "" {
					w.Count("panicking-requests-with-client-address-or-debug-hints")
				}
			}
			f.ServeHTTP(c15Strict{spy}, req)
		}()
		o.status, o.body, o.events = spy.status, string(spy.body), events
		o.saved = strings.Join(spy.h.Values("X-Session-Saved"), ",")
		return o
	}
	base := serve("/ok")
	if base.escaped != nil || base.status != 200 || base.body != "fine" {
		w.Violate("baseline", c, fmt.Sprintf("the healthy request before any panic: escaped=%v status=%d body=%q", base.escaped, base.status, clip(base.body)))
		return
	}
	for k, what := range c.Seq {
		w.Eval()
		if what == "ok" {
			armed = false
			o := serve("/ok")
			w.Count("follow-up-requests")
			if o.escaped != nil || o.status != base.status || o.body != base.body || strings.Join(o.events, ",") != strings.Join(base.events, ",") {
				w.Violate("follow-up", c, fmt.Sprintf("request %d (healthy, after panics): escaped=%v status=%d body=%q events=%v; before any panic: status=%d body=%q events=%v", k, o.escaped, o.status, clip(o.body), o.events, base.status, base.body, base.events))
				return
			}
			continue
		}
		armed = true
		hookRuns = 0
		o := serve(target)
		armed = false
		w.Count("panics-injected")
		if msg := recVerdict(c, o); msg != "" {
			w.Violate("recovery", c, fmt.Sprintf("request %d (%s): %s", k, target, msg))
			return
		}
		// (not judged when another before-function panics: the functions run last-registered first, and the panicking
		// one - registered later - cuts the run short; "once" then means that run)
		if !c.Buffer && c.Kind != "before-function-panics" && o.status != 0 && (hookRuns != 1 || o.saved != "1") {
			w.Violate("recovery", c, fmt.Sprintf("request %d (%s): a function registered with ResponseWriter.Before ahead of the panic ran %d times and its header reached the client as %q (status %d went out: once, \"1\")", k, target, hookRuns, o.saved, o.status))
			return
		}
		w.Count("before-functions-checked-on-the-error-response")
	}
	nested := "flat"
	for _, m := range c.Mid {
		if m != "plain" {
			nested = "nested-next"
		}
	}
	w.Count("kind:" + c.Kind)
	for _, m := range c.Mid {
		if m == "deadline-next" {
			w.Count("request-context-cancelled-while-unwinding")
			break
		}
	}
	if c.Buffer {
		w.Count("buffering-writer-in-front-of-recovery")
	}
	if c.Inner {
		w.Count("second-recovery-nearer-the-panic")
	}
	if c.Method == "HEAD" {
		w.Count("method:HEAD")
	}
	if c.Deep >= 300 || len(c.Mid) >= 40 {
		w.Count("deep-stack")
	}
	w.Count("phase:" + c.Phase)
	w.Count("where:" + c.Where)
	w.Count("depth:" + nested)
	w.NonTrivial(core.Hash64(c.Env, c.Kind, c.Phase, c.Where, nested, fmt.Sprint(c.Pre, c.Buffer), strings.Join(c.Mid, ",")), func() interface{} { return c })
	w.Sample(func() interface{} { return c })
}

func runC15(r *core.Run) {
	r.Rule("chains with 0-2 middleware before Recovery, 0-3 handlers between Recovery and the panic site (plain / calling Next / writing then calling Next), panic site in a route handler, a grouped route reached through Next, the action, or the not-found chain; phases before any write / after the status / after body bytes; GET and HEAD requests; the panicking handler 0-3000 frames deep, onions of 40-80 Next() calls; a panic raised under a //line directive that points past the end of an existing file; a message of 120 CJK characters; panics raised by the underlying writer (which refuses status codes outside 100..999 as net/http does) and by before-functions; panic values string, error, runtime error, struct, int, http.ErrAbortHandler, values of uncomparable types (slice, map, struct with a slice, slice-typed error), and an unresolvable dependency; one case in five with a second Recovery nearer the panic and a Next()-calling middleware between the two; request sequences mixing healthy and panicking requests on one instance; the three environments in sequential phases (the environment is process-global), plus serial cases assembled under one environment and served under another. Oracle: nothing reaches recover() around ServeHTTP; status 500 iff nothing sent before, else the first status; body = bytes written before the panic + detail (development) or generic text; outer middleware completes after Next(); healthy follow-up requests equal their pre-panic baseline. non-trivial = distinct (environment, value kind, phase, site, nesting, chain shape)")
	r.Assume("panics are raised in handlers after Recovery; Recovery logs to io.Discard")
	c15Canaries(r)
	defer c15EnterDir()()
	orig := flamego.Env()
	defer flamego.SetEnv(orig)
	n := r.N(6000, 600000)
	for _, env := range []string{"development", "production", "test"} {
		env := env
		flamego.SetEnv(flamego.EnvType(env))
		r.Parallel("rec-"+env, n, func(w *core.W, rng *rand.Rand, i int) {
			c := genRecCase(rng, env)
			w.Begin("recovery", c)
			judgeRec(w, c)
		})
	}
	// the environment may change after the application was assembled: serial cases (the environment is process-global)
	ws := r.Serial()
	envs := []string{"development", "production", "test"}
	for i := 0; i < r.N(300, 6000); i++ {
		rng := r.Rand("rec-switch", i)
		c := genRecCase(rng, envs[rng.Intn(3)])
		c.Built = envs[rng.Intn(3)]
		if rng.Intn(2) == 0 {
			c.OSEnv = envs[rng.Intn(3)]
		}
		ws.Begin("recovery", c)
		judgeRec(ws, c)
	}
	ws.Done()
	ws.Merge()
	flamego.SetEnv(orig)
	for _, k := range []string{"environment-switched-after-assembly", "process-environment-variable-set-after-start", "kind:string", "kind:error", "kind:runtime", "kind:struct", "kind:int", "kind:abort", "kind:dep", "kind:nilerr", "kind:neterr-epipe", "kind:neterr-reset", "kind:slice", "kind:map", "kind:structslice", "kind:sliceerr", "kind:bad-status-writeheader", "kind:bad-status-return", "kind:before-function-panics", "kind:long-cjk", "kind:line-directive", "kind:invoke-non-function", "kind:invoke-nil", "kind:apply-non-struct", "kind:urlpath-unknown-name", "kind:marshal-json-panics", "kind:marshal-xml-panics", "kind:long-function-name", "method:HEAD", "deep-stack", "second-recovery-nearer-the-panic", "request-context-cancelled-while-unwinding", "buffering-writer-in-front-of-recovery", "phase:before", "phase:after-header", "phase:after-body", "where:route", "where:group", "where:action", "where:notfound", "depth:flat", "depth:nested-next", "follow-up-requests"} {
		min := int64(100)
		if k == "process-environment-variable-set-after-start" {
			min = 40 // expected ~130 per quick run: keep the gate far below what any seed yields
		}
		r.GateCounter(k, min)
	}
	r.Gate("distinct_nontrivial", r.NonTrivialCount(), 1000)
}

func c15Canaries(r *core.Run) {
	c := &recCase{Env: "production", Pre: 1, Phase: "before", Kind: "string", Marker: "MK123456Z"}
	good := recObs{status: 500, body: "Internal Server Error", events: []string{"pre0", "post0"}}
	r.Canary("faithful passes", recVerdict(c, good) == "")
	r.Canary("escaped panic", recVerdict(c, recObs{escaped: "x"}) != "")
	r.Canary("detail leaked in production", recVerdict(c, recObs{status: 500, body: "PANIC: MK123456Z", events: good.events}) != "")
	r.Canary("no 500", recVerdict(c, recObs{status: 200, body: "Internal Server Error", events: good.events}) != "")
	r.Canary("outer middleware cut short", recVerdict(c, recObs{status: 500, body: "Internal Server Error", events: []string{"pre0"}}) != "")
	d := &recCase{Env: "development", Phase: "after-header", Kind: "error", Marker: "MK654321Z"}
	r.Canary("dev: detail missing", recVerdict(d, recObs{status: 201, body: "Internal Server Error"}) != "")
	r.Canary("status overwritten after partial write", recVerdict(d, recObs{status: 500, body: "<html>MK654321Z"}) != "")
}

//go:noinline
func c15RaiseInAFunctionWhoseNameIsLongerThanAnyColumnAStackPrinterWouldReserveForIt(marker string) {
	panic(marker)
}

type c15AReceiverTypeWithALongNameForTheSakeOfTheStackPrinter struct{}

//go:noinline
func (c15AReceiverTypeWithALongNameForTheSakeOfTheStackPrinter) RaiseFromAMethodValueWhoseNameIsEvenLongerOnceThePackageAndTheTypeAreInFront(marker string) {
	panic(marker)
}
