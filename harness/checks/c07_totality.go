package checks

import (
	"encoding/json"
	"fmt"
	"io"
	"math/rand"
	"net/http"
	"net/url"
	"reflect"
	"regexp"
	"sort"
	"strings"
	"unicode/utf8"

	"github.com/flamego/flamego"
	"github.com/flamego/flamego/verifharness/core"
	"github.com/flamego/flamego/verifharness/gen"
	"github.com/flamego/flamego/verifharness/rmodel"
)

// totCase: a valid route set and hostile requests (C07).
type totCase struct {
	Routes  []string   `json:"routes"`
	Methods []string   `json:"methods"`
	Cons    [][]string `json:"header_constraints,omitempty"` // per route: Headers() pairs (nil = unconstrained)
	NF      string     `json:"not_found"`                    // default | custom
	MW      bool       `json:"app_middleware"`
	Status  int        `json:"route_status,omitempty"`         // the status route handlers answer with (0 = the implicit 200); any three-digit code is the handler's choice and must not upset the framework (the request logger reads it)
	BadNF   bool       `json:"failed_notfound_call,omitempty"` // after set-up NotFound(h, "oops") is attempted and fails loudly (recovered): the not-found chain in force stays
	Wrap    bool       `json:"handler_wrapper,omitempty"`      // a HandlerWrapper is configured that runs the handler it was given and writes what it returns: every route must still run its own handler
	Fail    string     `json:"handler_failure,omitempty"`      // every route handler fails with this after recording that it ran - index | nilmap | nilptr | string | error - and no Recovery is installed: the failure is the handler's own, it ends the request; the framework starts no second chain and answers nothing on its behalf
	Reqs    []totReq   `json:"requests"`
}

type totReq struct {
	Method core.B      `json:"method"`
	Path   core.B      `json:"path"`
	Hdr    [][2]string `json:"hdr,omitempty"`
	URI    string      `json:"request_uri,omitempty"`    // RequestURI as the server would have recorded it ("" = the path): "*" (asterisk form), an absolute URI, junk. Routing is defined on the method and URL.Path
	NoHdr  bool        `json:"nil_header_map,omitempty"` // the request has no header map at all (hand-built requests)
	Host   string      `json:"host,omitempty"`
}

func init() {
	register(&Check{ID: "C07", Run: runC07, Replay: func(w *core.W, kind string, raw json.RawMessage) {
		var c totCase
		if err := json.Unmarshal(raw, &c); err != nil {
			w.R.Inconclusive("replay case does not decode: " + err.Error())
			return
		}
		w.Begin("totality", &c)
		judgeTot(w, &c)
	}})
}

var hostileMethods = []string{"GET", "POST", "PUT", "DELETE", "PATCH", "OPTIONS", "HEAD", "CONNECT", "TRACE", "get", "Post", "", "BREW", " GET", "GET ", "G\x00T", "\xff\xfe", "*", "PROPFIND", strings.Repeat("M", 300), "po\u017ft", "opt\u0131ons", "\u212aET", "gET", "Trace"}

func hostilePath(rng *rand.Rand, routes []*rmodel.Route) (string, string) {
	switch rng.Intn(14) {
	case 0:
		return "", "empty"
	case 1:
		return strings.Repeat("/", 1+rng.Intn(6)), "slashes-only"
	case 2:
		return gen.GenPath(rng, routes) + "/", "trailing-slash"
	case 3:
		p := gen.GenPath(rng, routes)
		return strings.Replace(p+"/x", "/", "//", 1+rng.Intn(2)), "inner-empty-segment"
	case 4:
		return gen.GenPath(rng, routes) + []string{"%", "%zz", "%4", "/%", "%%%"}[rng.Intn(5)], "bad-escape"
	case 5:
		return gen.GenPath(rng, routes) + []string{"\xff", "/\xfe\xff", "\xc3\x28", "\x00", "/\x00/"}[rng.Intn(5)], "non-utf8-or-nul"
	case 6:
		if rng.Intn(2) == 0 {
			n := 100 + rng.Intn(4900)
			seg := gen.Values[rng.Intn(len(gen.Values))]
			return strings.Repeat("/"+seg, n), "long"
		}
		return "/" + strings.Repeat("a", 10000+rng.Intn(90000)), "long"
	case 7:
		b := make([]byte, rng.Intn(40))
		for i := range b {
			b[i] = byte(rng.Intn(256))
		}
		return string(b), "random-bytes"
	case 8, 9, 10:
		rt := routes[rng.Intn(len(routes))]
		return "/" + strings.Join(gen.InstRoute(rng, rt, rng.Intn(2) == 0), "/"), "exact-instance"
	default:
		rt := routes[rng.Intn(len(routes))]
		segs := gen.Mutate(rng, gen.InstRoute(rng, rt, rng.Intn(2) == 0))
		return "/" + strings.Join(segs, "/"), "near-miss"
	}
}

func genTotCase(rng *rand.Rand) (*totCase, []string) {
	set := gen.GenSet(rng, gen.Cfg{AllowRoot: true}, 8)
	c := &totCase{NF: []string{"default", "custom"}[rng.Intn(2)], MW: rng.Intn(5) != 0, Wrap: rng.Intn(4) == 0, BadNF: rng.Intn(6) == 0}
	if rng.Intn(3) == 0 {
		c.Status = []int{201, 204, 299, 300, 404, 418, 499, 500, 599, 600, 601, 700, 799, 999}[rng.Intn(14)]
	}
	meths := [][]string{{"GET"}, {"GET", "POST"}, {"GET", "HEAD", "TRACE"}}[rng.Intn(3)]
	for _, rt := range set {
		c.Routes = append(c.Routes, rt.Render())
		c.Methods = append(c.Methods, meths[rng.Intn(len(meths))])
		var cons []string
		if rng.Intn(4) == 0 {
			cons = []string{"X-K", []string{"^v", "", "1"}[rng.Intn(3)]}
			if rng.Intn(3) == 0 {
				// two criteria that name the same header in different spellings: both must hold
				cons = []string{"x-k", []string{"^v", "1$", ""}[rng.Intn(3)], "X-K", []string{"1", "^v1$", "z"}[rng.Intn(3)]}
			}
		}
		c.Cons = append(c.Cons, cons)
	}
	var classes []string
	for i := 0; i < 30; i++ {
		p, cls := hostilePath(rng, set)
		m := meths[rng.Intn(len(meths))]
		if rng.Intn(5) == 0 {
			m = hostileMethods[rng.Intn(len(hostileMethods))]
		}
		if rng.Intn(12) == 0 && len(m)+len(p) > 0 {
			// the same bytes, split between method and path at another place ("G" + "ET/ping", "" + "GET/ping"):
			// only the method token itself selects the method
			cat := m + p
			k := rng.Intn(len(cat) + 1)
			m, p, cls = cat[:k], cat[k:], "method-path-resplit"
		}
		rq := totReq{Method: core.B(m), Path: core.B(p)}
		for k := rng.Intn(3); k > 0; k-- {
			rq.Hdr = append(rq.Hdr, [2]string{[]string{"X-K", "X-K", "Accept", "Content-Type", "x-odd header", "", "X-Forwarded-For", "X-Real-Ip", "X-HTTP-Method-Override", "X-Original-URL", "X-Forwarded-Host"}[rng.Intn(11)], []string{"v1", "1", "", "zz", ",", ", ,", " ", "1.2.3.4, 5.6.7.8", ":", "GET", "DELETE", "/"}[rng.Intn(12)]})
		}
		if rng.Intn(10) == 0 {
			rq.URI = []string{"*", "*", "http://other.example/abs?x=1", "\x00", "/other"}[rng.Intn(5)]
			if rq.URI == "*" && rng.Intn(2) == 0 {
				rq.Method = "OPTIONS"
			}
		}
		if rng.Intn(10) == 0 {
			rq.Host = []string{"example.com", "example.com:8080", "[::1]", " "}[rng.Intn(4)]
			rq.NoHdr = rng.Intn(2) == 0
			if rq.NoHdr {
				rq.Hdr = nil
			}
		}
		if i > 0 && rng.Intn(4) == 0 {
			// the same path as an earlier request with other headers: outcomes must not depend on what was served before
			prev := c.Reqs[rng.Intn(len(c.Reqs))]
			rq.Method, rq.Path = prev.Method, prev.Path
			cls = classes[0]
			for j := range c.Reqs {
				if c.Reqs[j].Path == prev.Path {
					cls = classes[j]
				}
			}
		}
		c.Reqs = append(c.Reqs, rq)
		classes = append(classes, cls)
	}
	if rng.Intn(8) == 0 {
		// drawn last, so that every other field of a case is what it was before this field existed
		c.Fail = []string{"index", "nilmap", "nilptr", "string", "error"}[rng.Intn(5)]
	}
	return c, classes
}

// c07Fail raises the failure a case asks its route handlers for.
func c07Fail(kind string, i int) {
	switch kind {
	case "index":
		var a []int
		_ = a[i+1] // runtime.Error: index out of range
	case "nilmap":
		var m map[string]int
		m["k"] = i // runtime.Error: assignment to entry in nil map
	case "nilptr":
		var p *totObs
		p.mw = i // runtime.Error: nil pointer dereference
	case "string":
		panic("c07-handler-failure")
	case "error":
		panic(fmt.Errorf("c07-handler-failure %d", i))
	}
}

type totObs struct {
	pan    interface{}
	mw     int
	hit    []int
	nf     int
	status int
	body   string
	params string
}

func (o totObs) key() string {
	return fmt.Sprintf("hit=%v nf=%d status=%d body=%q params=%s", o.hit, o.nf, o.status, o.body, o.params)
}

// c07InvokeStruct has the method set of a fast invoker and is no function.
type c07InvokeStruct struct{}

func (c07InvokeStruct) Invoke([]interface{}) ([]reflect.Value, error) { return nil, nil }

type totInstance struct {
	f      *flamego.Flame
	cons   map[int]map[string]*regexp.Regexp
	models map[string]*rmodel.Model
	cur    *totObs
	ok     bool
}

func buildTot(c *totCase) *totInstance {
	ti := &totInstance{f: flamego.NewWithLogger(io.Discard), models: map[string]*rmodel.Model{}, ok: true, cons: map[int]map[string]*regexp.Regexp{}}
	if c.Wrap {
		ti.f.HandlerWrapper(func(h flamego.Handler) flamego.Handler {
			return func(ctx flamego.Context) {
				vals, err := ctx.Invoke(h)
				if err != nil {
					panic(err)
				}
				if len(vals) == 1 && vals[0].Kind() == reflect.String {
					_, _ = ctx.ResponseWriter().Write([]byte(vals[0].String()))
				}
			}
		})
	}
	if c.MW {
		ti.f.Use(func() { ti.cur.mw++ })
	}
	if len(c.Routes)%4 == 1 {
		ti.f.Use(flamego.Logger()) // the built-in request logger (reads method, URI, remote address, status); logs to io.Discard
	}
	if len(c.Routes)%2 == 0 {
		// Before handlers that decline (return false) run ahead of routing and must not influence the outcome
		ti.f.Before(func(http.ResponseWriter, *http.Request) bool { return false })
		if len(c.Routes)%4 == 2 {
			// ... also one that sends "103 Early Hints" on its way: an interim response answers nothing
			ti.f.Before(func(w http.ResponseWriter, _ *http.Request) bool {
				w.Header().Add("Link", "</app.css>; rel=preload")
				w.WriteHeader(http.StatusEarlyHints)
				w.Header().Del("Link")
				return false
			})
		} else {
			ti.f.Before(func(http.ResponseWriter, *http.Request) bool { return false })
		}
	}
	if c.NF == "custom" {
		ti.f.NotFound(func() (int, string) { ti.cur.nf++; return 404, "custom-nf" })
	}
	regAll := func() {
		for i, txt := range c.Routes {
			m := c.Methods[i]
			mr, err := rmodel.Parse(txt)
			if err != nil {
				continue
			}
			if ti.models[m] == nil {
				ti.models[m] = rmodel.New()
			}
			forms, cat, judged := ti.models[m].Check(i, mr)
			if !judged || cat != rmodel.RejNone {
				continue // only valid route sets are the subject here
			}
			i := i
			var pan interface{}
			func() {
				defer func() { pan = recover() }()
				rt := ti.f.Route(m, txt, []flamego.Handler{func(ctx flamego.Context) string {
					ti.cur.hit = append(ti.cur.hit, i)
					keys := make([]string, 0, len(ctx.Params()))
					for k := range ctx.Params() {
						keys = append(keys, k)
					}
					sort.Strings(keys)
					var sb strings.Builder
					for _, k := range keys {
						sb.WriteString(k + "=" + ctx.Param(k) + ";")
					}
					ti.cur.params = sb.String()
					if c.Fail != "" {
						c07Fail(c.Fail, i)
					}
					if c.Status != 0 {
						ctx.ResponseWriter().WriteHeader(c.Status)
					}
					return fmt.Sprintf("route-%d", i)
				}})
				if i < len(c.Cons) && c.Cons[i] != nil {
					rt.Headers(c.Cons[i]...)
					cm := map[string]*regexp.Regexp{}
					for k := 1; k < len(c.Cons[i]); k += 2 {
						cm[c.Cons[i][k-1]] = regexp.MustCompile(c.Cons[i][k])
					}
					ti.cons[i] = cm
				}
			}()
			if pan != nil {
				ti.ok = false // accept disagreement: C08's subject
				return
			}
			ti.models[m].Commit(i, mr, forms)
		}
	}
	if len(c.Routes)%3 == 0 {
		// all routes are siblings inside two nested groups (empty group paths, pass-through group handlers): the
		// chain that runs must still be the chosen route's own
		pass := func(ctx flamego.Context) { ctx.Next() }
		plain := func() {}
		ti.f.Group("", func() {
			ti.f.Group("", regAll, plain)
		}, pass, plain)
	} else {
		regAll()
	}
	if c.BadNF && len(c.Routes)%2 == 1 {
		// values that are no functions but have an Invoke method (a struct, a pointer to a fast invoker): refused like
		// any other non-function. Whatever is accepted here takes part in every chain - the requests below say what
		// becomes of that
		ci := flamego.ContextInvoker(func(flamego.Context) {})
		for _, call := range []func(){
			func() {
				ti.f.NotFound(c07InvokeStruct{}, func() (int, string) { ti.cur.nf += 100; return 418, "left-behind" })
			},
			func() { ti.f.Use(&ci) },
			func() { ti.f.Use(c07InvokeStruct{}) },
		} {
			func() {
				defer func() { _ = recover() }()
				call()
			}()
		}
	} else if c.BadNF {
		func() {
			defer func() {
				if recover() == nil {
					ti.ok = false // a non-function handler was accepted: not this property's subject
				}
			}()
			ti.f.NotFound(func() (int, string) { ti.cur.nf += 100; return 418, "left-behind" }, "oops")
		}()
	}
	return ti
}

func (ti *totInstance) serve(rq totReq) totObs {
	var o totObs
	ti.cur = &o
	spy := &retSpy{h: http.Header{}, interim: true}
	hdr := http.Header{}
	for _, kv := range rq.Hdr {
		hdr[kv[0]] = append(hdr[kv[0]], kv[1])
	}
	func() {
		defer func() { o.pan = recover() }()
		u := &url.URL{Path: string(rq.Path)}
		if len(rq.Hdr)%2 == 1 {
			u.RawPath = nonCanonicalEncoding(string(rq.Path), len(rq.Path)) // as a parsed request would carry; routing is defined on Path
		}
		req := &http.Request{Method: string(rq.Method), URL: u, Header: hdr, RequestURI: string(rq.Path), Host: rq.Host}
		if rq.URI != "" {
			req.RequestURI = rq.URI
		}
		if rq.NoHdr && len(rq.Hdr) == 0 {
			req.Header = nil
		}
		ti.f.ServeHTTP(spy, req)
	}()
	o.status, o.body = spy.status, string(spy.body)
	return o
}

// totVerdict judges one request given its observations on instance A (twice) and a rebuilt instance B.
func totVerdict(c *totCase, method string, best *rmodel.Deriv, a1, a2, b totObs) string {
	bodyOf := func(s string) string {
		if method == "HEAD" {
			return "" // no body bytes are forwarded for HEAD (C13)
		}
		return s
	}
	if c.Fail != "" && len(a1.hit) > 0 {
		// the route handler failed on purpose and nothing is there to recover it: whatever else happens, the
		// framework must not start another chain or answer on the handler's behalf
		if c.MW && a1.mw != 1 {
			return fmt.Sprintf("a route handler failed (%s) and the application middleware ran %d times: %d chains were started", c.Fail, a1.mw, a1.mw)
		}
		if len(a1.hit) != 1 || a1.nf != 0 || a1.status != 0 || a1.body != "" {
			return fmt.Sprintf("a route handler failed (%s, no Recovery installed); afterwards: route handlers run %v, not-found chain %d, status %d body %q - exactly one chain runs and nothing answers in its place", c.Fail, a1.hit, a1.nf, a1.status, a1.body)
		}
		if best == nil || a1.hit[0] != best.Form.RouteIdx {
			return fmt.Sprintf("route #%d ran, the model chooses %v", a1.hit[0], best)
		}
		if a1.key() != a2.key() || a1.key() != b.key() || fmt.Sprint(a1.pan) != fmt.Sprint(a2.pan) || fmt.Sprint(a1.pan) != fmt.Sprint(b.pan) {
			return fmt.Sprintf("a failing route handler: repeating the request gives a different outcome:\n first:   %s (panic %v)\n second:  %s (panic %v)\n rebuilt: %s (panic %v)", a1.key(), a1.pan, a2.key(), a2.pan, b.key(), b.pan)
		}
		return ""
	}
	if a1.pan != nil {
		return fmt.Sprintf("serving panicked: %v", a1.pan)
	}
	chains := len(a1.hit)
	if c.NF == "custom" {
		chains += a1.nf
	} else if a1.status == 404 && len(a1.hit) == 0 {
		chains++
	}
	if c.MW && a1.mw != 1 {
		return fmt.Sprintf("the application middleware (first in every chain) ran %d times: %d chains were started", a1.mw, a1.mw)
	}
	if chains != 1 {
		return fmt.Sprintf("%d handler chains ran (route handlers %v, not-found %d, status %d)", chains, a1.hit, a1.nf, a1.status)
	}
	if best == nil {
		if len(a1.hit) != 0 {
			return fmt.Sprintf("no route admits the request, yet route #%d ran", a1.hit[0])
		}
		want := "404 page not found\n"
		if c.NF == "custom" {
			want = "custom-nf"
		}
		if a1.status != 404 || a1.body != bodyOf(want) {
			return fmt.Sprintf("not-found chain: status %d body %q, want 404 %q", a1.status, a1.body, want)
		}
	} else {
		if len(a1.hit) != 1 || a1.hit[0] != best.Form.RouteIdx {
			return fmt.Sprintf("the chosen route is #%d %q, but %v ran (not-found %d)", best.Form.RouteIdx, best.Form.Route, a1.hit, a1.nf)
		}
		wantStatus := 200
		if c.Status != 0 {
			wantStatus = c.Status
		}
		if a1.status != wantStatus || a1.body != bodyOf(fmt.Sprintf("route-%d", best.Form.RouteIdx)) {
			return fmt.Sprintf("route chain: status %d body %q", a1.status, a1.body)
		}
	}
	if a2.pan != nil || a1.key() != a2.key() {
		return fmt.Sprintf("repeating the request on the same instance gives a different outcome:\n first:  %s\n second: %s (panic %v)", a1.key(), a2.key(), a2.pan)
	}
	if b.pan != nil || a1.key() != b.key() {
		return fmt.Sprintf("an identically rebuilt instance gives a different outcome:\n first:   %s\n rebuilt: %s (panic %v)", a1.key(), b.key(), b.pan)
	}
	return ""
}

func judgeTot(w *core.W, c *totCase) {
	judgeTotClasses(w, c, nil)
}

func judgeTotClasses(w *core.W, c *totCase, classes []string) {
	A, B := buildTot(c), buildTot(c)
	if !A.ok || !B.ok {
		w.Count("abandoned:accept-disagreement(C08)")
		return
	}
	// the rebuilt instance serves the same requests in reverse order: the outcome of a request must
	// not depend on what was served before it
	bOut := make([]totObs, len(c.Reqs))
	for k := len(c.Reqs) - 1; k >= 0; k-- {
		bOut[k] = B.serve(c.Reqs[k])
	}
	for k, rq := range c.Reqs {
		w.Eval()
		var best *rmodel.Deriv
		if m := A.models[string(rq.Method)]; m != nil {
			hdr := http.Header{}
			for _, kv := range rq.Hdr {
				hdr[kv[0]] = append(hdr[kv[0]], kv[1])
			}
			best, _ = m.Dispatch(string(rq.Path), func(ri int) bool {
				cm, ok := A.cons[ri]
				return !ok || consPass(cm, hdr)
			})
		}
		a1 := A.serve(rq)
		a2 := A.serve(rq)
		b := bOut[k]
		if msg := totVerdict(c, string(rq.Method), best, a1, a2, b); msg != "" {
			w.Violate("totality", c, fmt.Sprintf("request %d %q %q: %s", k, string(rq.Method), clip(string(rq.Path)), msg))
			return
		}
		chain := "not-found"
		if best != nil {
			chain = "route"
		}
		mcls := "known-method"
		if !isKnownMethod(string(rq.Method)) {
			mcls = "unknown-method"
		}
		cls := "replay"
		if classes != nil {
			cls = classes[k]
		} else if !utf8.ValidString(string(rq.Path)) {
			cls = "non-utf8-or-nul"
		}
		w.Count("class:" + cls + "/" + chain)
		w.Count("method:" + mcls + "/" + chain)
		w.Count("nf:" + c.NF)
		if c.Fail != "" && chain == "route" {
			w.Count("route-handler-failed-without-recovery")
		}
		if c.MW {
			w.Count("with-app-middleware")
		} else {
			w.Count("without-app-middleware")
		}
		w.NonTrivial(core.Hash64(strings.Join(c.Routes, "\n"), mcls, cls, chain, c.NF), func() interface{} {
			return map[string]interface{}{"routes": c.Routes, "method": rq.Method, "path": core.B(clip(string(rq.Path))), "class": cls, "chain": chain}
		})
	}
	w.Sample(func() interface{} {
		return map[string]interface{}{"routes": c.Routes, "requests": len(c.Reqs), "first_request": c.Reqs[0]}
	})
}

func runC07(r *core.Run) {
	r.Rule("valid route sets (1-8 routes of all kinds over 1-3 methods) x 30 hostile requests each: path classes {empty, slashes only, trailing slash, inner empty segments, bad escapes, non-UTF-8 / NUL, long (100-5000 segments or a 10^4-10^5 byte segment), random bytes, exact instance, near miss}; method tokens (the nine known, lower-case, empty, padded, NUL / non-UTF-8 bytes, BREW, 300 bytes; one request in twelve re-splits the bytes of method+path at another place); odd header sets, no header map at all, a Host, RequestURI in asterisk / absolute / junk form; a quarter of the routes header-constrained and earlier paths re-requested with other header sets; default and custom not-found chain (one case in six with a later NotFound call that fails loudly and must leave the chain in force untouched); with and without application middleware; route handlers answering with the implicit 200 or one status from 201..999 (the request logger, installed in a quarter of the cases, reads it); one case in eight has route handlers that fail (runtime errors, a string, an error value) with no Recovery installed - the failure ends the request, the framework starts no second chain and answers nothing in the handler's place. Oracle: recover() around ServeHTTP, counting middleware (exactly one chain), the reference model for which chain, and equality of (chain, status, body, parameters) when the request is repeated on the same instance and on an identically rebuilt one that serves the request list in reverse order. non-trivial = distinct (route set, method class, path class, chain kind, not-found kind)")
	r.Assume("req.URL is non-nil (net/http's contract); handlers are deterministic; they do not panic except in the cases that say so (handler_failure)")
	c07Canaries(r)
	n := r.N(10000, 800000)
	r.Parallel("tot", n, func(w *core.W, rng *rand.Rand, i int) {
		c, classes := genTotCase(rng)
		w.Begin("totality", c)
		judgeTotClasses(w, c, classes)
	})
	for _, cls := range []string{"empty", "slashes-only", "trailing-slash", "inner-empty-segment", "bad-escape", "non-utf8-or-nul", "long", "random-bytes", "exact-instance", "near-miss"} {
		r.GateCounter("class:"+cls+"/not-found", 20)
	}
	for _, cls := range []string{"trailing-slash", "bad-escape", "non-utf8-or-nul", "long", "exact-instance", "near-miss", "empty", "slashes-only"} {
		r.GateCounter("class:"+cls+"/route", 20)
	}
	for _, k := range []string{"method:unknown-method/not-found", "method:known-method/route", "nf:default", "nf:custom", "with-app-middleware", "without-app-middleware"} {
		r.GateCounter(k, 100)
	}
	r.GateCounter("route-handler-failed-without-recovery", 500)
	r.Gate("distinct_nontrivial", r.NonTrivialCount(), 5000)
}

func c07Canaries(r *core.Run) {
	c := &totCase{NF: "default", MW: true}
	ok := totObs{mw: 1, status: 404, body: "404 page not found\n"}
	r.Canary("faithful not-found passes", totVerdict(c, "GET", nil, ok, ok, ok) == "")
	r.Canary("panic", totVerdict(c, "GET", nil, totObs{pan: "index out of range"}, ok, ok) != "")
	two := totObs{mw: 2, hit: []int{0}, status: 200, body: "route-0"}
	r.Canary("two chains", totVerdict(c, "GET", nil, two, two, two) != "")
	r.Canary("not-found without middleware", totVerdict(c, "GET", nil, totObs{mw: 0, status: 404, body: "404 page not found\n"}, ok, ok) != "")
	diff := ok
	diff.body = "x"
	r.Canary("repeat differs", totVerdict(c, "GET", nil, ok, diff, ok) != "")
	r.Canary("rebuilt instance differs", totVerdict(c, "GET", nil, ok, ok, diff) != "")
	cf := &totCase{NF: "default", MW: true, Fail: "index"}
	failed := totObs{mw: 1, hit: []int{0}, pan: "runtime error: index out of range"}
	answered := failed
	answered.mw, answered.status, answered.body, answered.pan = 2, 404, "404 page not found\n", nil
	r.Canary("a second chain after a failed handler", totVerdict(cf, "GET", nil, answered, answered, answered) != "")
}
