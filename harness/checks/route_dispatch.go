package checks

import (
	"encoding/json"
	"fmt"
	"io"
	"math/rand"
	"net/http"
	"net/http/httptest"
	"net/url"
	"regexp"
	"sort"
	"strings"
	"sync"

	"github.com/flamego/flamego"
	"github.com/flamego/flamego/internal/route"
	"github.com/flamego/flamego/verifharness/core"
	"github.com/flamego/flamego/verifharness/gen"
	"github.com/flamego/flamego/verifharness/rmodel"
)

// routeCase is the concrete, replayable case of C01/C02 (and C07's model part):
// a route list in registration order and request paths.
type routeCase struct {
	Level    string   `json:"level"` // "tree" (route.Tree.Match) or "flame" (Flame.ServeHTTP)
	Routes   []string `json:"routes"`
	Methods  []string `json:"methods,omitempty"`                                     // flame level: method of each route
	Paths    []core.B `json:"paths"`                                                 // request paths
	ReqMeth  []string `json:"req_methods,omitempty"`                                 // flame level: method of each request
	Continue bool     `json:"keep_tree_after_refusal,omitempty"`                     // the same tree keeps being used after a refused registration (no rebuild)
	BadH     []int    `json:"registered_only_with_a_non_function_handler,omitempty"` // flame level: these routes are only ever attempted with a handler list that contains a non-function; the call fails loudly (recovered) and the route is not part of the application
	Warm     bool     `json:"requests_served_between_registrations,omitempty"`       // every request of the list is also served (result discarded) after each accepted registration, while the application is still being assembled: what was served earlier must not influence dispatch later
	RawPath  bool     `json:"set_raw_path,omitempty"`                                // flame level: requests also carry URL.RawPath (a valid, non-canonical encoding of Path, as a parsed request would)
}

func init() {
	register(&Check{ID: "C01", Run: func(r *core.Run) { runRouteLoop(r, "C01") }, Replay: func(w *core.W, kind string, raw json.RawMessage) {
		if kind == "wide" {
			replayWide(w, raw)
			return
		}
		replayRoute(w, "C01", raw)
	}})
	register(&Check{ID: "C02", Run: func(r *core.Run) { runRouteLoop(r, "C02") }, Replay: func(w *core.W, kind string, raw json.RawMessage) { replayRoute(w, "C02", raw) }})
}

func replayRoute(w *core.W, prop string, raw json.RawMessage) {
	var c routeCase
	if err := json.Unmarshal(raw, &c); err != nil {
		w.R.Inconclusive("replay case does not decode: " + err.Error())
		return
	}
	w.Begin("routes", &c)
	judgeRouteCase(w, &c, prop, newImplParser())
}

func newImplParser() *route.Parser {
	p, err := route.NewParser()
	if err != nil {
		panic("route.NewParser: " + err.Error())
	}
	return p
}

func safeParse(p *route.Parser, s string) (rt *route.Route, err error, pan interface{}) {
	defer func() {
		if x := recover(); x != nil {
			pan = x
		}
	}()
	rt, err = p.Parse(s)
	return
}

func safeAdd(t route.Tree, r *route.Route, h route.Handler) (leaf route.Leaf, err error, pan interface{}) {
	defer func() {
		if x := recover(); x != nil {
			pan = x
		}
	}()
	leaf, err = route.AddRoute(t, r, h)
	return
}

func safeMatch(t route.Tree, path string, h http.Header) (leaf route.Leaf, params route.Params, ok bool, pan interface{}) {
	defer func() {
		if x := recover(); x != nil {
			pan = x
		}
	}()
	leaf, params, ok = t.Match(path, h)
	return
}

// genFan: 8-40 static alternatives and a few overlapping dynamic ones at ONE tree position (as leaves, or as
// subtrees when a tail segment follows), registered in random order. Equal-rank alternatives must keep their
// registration order however many there are.
func genFan(rng *rand.Rand) []*rmodel.Route {
	lit := func(s string) rmodel.Segment { return rmodel.Segment{Elems: []rmodel.Elem{{Lit: s}}} }
	re := func(n, e string) rmodel.Segment {
		return rmodel.Segment{Elems: []rmodel.Elem{{Params: []rmodel.Param{{Name: n, Value: e, IsRegex: true, Blanks: 1}}}}}
	}
	var prefix, tail []rmodel.Segment
	if rng.Intn(2) == 0 {
		prefix = append(prefix, lit("p"))
	}
	if rng.Intn(2) == 0 {
		tail = append(tail, lit("x"))
	}
	var alts []rmodel.Segment
	dyn := []rmodel.Segment{re("w", "[a-z]+"), re("t", "[a-z0-9]+"), re("u", "[a-z0-9.]+"), {Elems: []rmodel.Elem{{Bind: "ph"}}}, {Elems: []rmodel.Elem{{Bind: "ph2"}}}}
	rng.Shuffle(len(dyn), func(i, j int) { dyn[i], dyn[j] = dyn[j], dyn[i] })
	alts = append(alts, dyn[:2+rng.Intn(3)]...)
	for k := 8 + rng.Intn(33); k > 0; k-- {
		alts = append(alts, lit(fmt.Sprintf("s%d", k)))
	}
	if rng.Intn(2) == 0 {
		rng.Shuffle(len(alts), func(i, j int) { alts[i], alts[j] = alts[j], alts[i] })
	}
	var out []*rmodel.Route
	for _, a := range alts {
		rt := &rmodel.Route{}
		rt.Segs = append(rt.Segs, prefix...)
		rt.Segs = append(rt.Segs, a)
		rt.Segs = append(rt.Segs, tail...)
		out = append(out, rt)
	}
	// a registration that opens a new alternative at the wide position and is refused deeper down (a bind used
	// twice), followed by a well-formed route through the same alternative: it must be reachable
	ph := func(n string) rmodel.Segment { return rmodel.Segment{Elems: []rmodel.Elem{{Bind: n}}} }
	bad := &rmodel.Route{Segs: append(append([]rmodel.Segment{}, prefix...), lit("zz"), ph("dup"), ph("dup"))}
	good := &rmodel.Route{Segs: append(append([]rmodel.Segment{}, prefix...), lit("zz"), lit("ok"))}
	out = append(out, bad, good)
	return out
}

// genEmptyTail: under one static prefix, the alternatives for the last position that all have something to say
// about the path "<prefix>/": the empty segment itself (static), expressions that admit the empty string, a
// placeholder, match-alls, an optional static - in random registration order. The documented priority decides.
func genEmptyTail(rng *rand.Rand) []*rmodel.Route {
	lit := func(s string) rmodel.Segment { return rmodel.Segment{Elems: []rmodel.Elem{{Lit: s}}} }
	re := func(n, e string) rmodel.Segment {
		return rmodel.Segment{Elems: []rmodel.Elem{{Params: []rmodel.Param{{Name: n, Value: e, IsRegex: true, Blanks: 1}}}}}
	}
	prefix := []rmodel.Segment{lit([]string{"tags", "a", "v1"}[rng.Intn(3)])}
	if rng.Intn(3) == 0 {
		prefix = append(prefix, lit("b"))
	}
	opt := lit("z")
	opt.Optional = true
	alts := []rmodel.Segment{{}, re("rev", "[0-9]*"), re("q", "x?"), re("e", "a|"), re("ext", `(\.(patch|diff))?`), {Elems: []rmodel.Elem{{Bind: "ph"}}},
		{Elems: []rmodel.Elem{{Params: []rmodel.Param{{Name: "all", Value: "**", Blanks: 1}}}}}, opt}
	rng.Shuffle(len(alts), func(i, j int) { alts[i], alts[j] = alts[j], alts[i] })
	var out []*rmodel.Route
	for _, a := range alts[:2+rng.Intn(len(alts)-1)] {
		rt := &rmodel.Route{}
		rt.Segs = append(rt.Segs, prefix...)
		rt.Segs = append(rt.Segs, a)
		out = append(out, rt)
	}
	return out
}

func genRouteCase(rng *rand.Rand, flameLevel bool, nPaths int) *routeCase {
	cfg := gen.Cfg{AllowRoot: true}
	set := gen.GenSet(rng, cfg, 10)
	fan := rng.Intn(25) == 0
	if fan {
		set = genFan(rng)
	}
	if !fan && rng.Intn(25) == 0 {
		set = genEmptyTail(rng)
	}
	fanContinue := fan && rng.Intn(2) == 0
	c := &routeCase{Level: "tree", Continue: rng.Intn(4) == 0 || fanContinue, RawPath: rng.Intn(3) == 0, Warm: rng.Intn(5) == 0}
	for _, rt := range set {
		if rng.Intn(3) == 0 {
			// legal, non-canonical spelling of the blanks: the registered text differs from the canonical one
			for si := range rt.Segs {
				for ei := range rt.Segs[si].Elems {
					for pi := range rt.Segs[si].Elems[ei].Params {
						rt.Segs[si].Elems[ei].Params[pi].Blanks = rng.Intn(3)
						rt.Segs[si].Elems[ei].Params[pi].Lead = rng.Intn(3)
					}
				}
			}
		}
		txt := rt.Render()
		// The structure of a generated route is known from its derivation; the
		// reference parser must agree with it (harness self-check, not a verdict).
		back, err := rmodel.Parse(txt)
		if err != nil || !back.Equal(rt) {
			panic(fmt.Sprintf("harness: reference parser disagrees with generated derivation for %q: %v", txt, err))
		}
		c.Routes = append(c.Routes, txt)
	}
	meths := []string{"GET"}
	if flameLevel {
		c.Level = "flame"
		meths = [][]string{{"GET"}, {"GET", "POST"}, {"GET", "POST", "HEAD"}, {"PUT", "DELETE", "PATCH", "OPTIONS", "CONNECT", "TRACE"}}[rng.Intn(4)]
		for range c.Routes {
			c.Methods = append(c.Methods, meths[rng.Intn(len(meths))])
		}
		if rng.Intn(4) == 0 {
			c.BadH = []int{rng.Intn(len(c.Routes))}
		}
	}
	for i := 0; i < nPaths; i++ {
		c.Paths = append(c.Paths, core.B(gen.GenPath(rng, set)))
		if fan && i%2 == 0 {
			// values that several of the dynamic alternatives admit
			v := []string{"hello", "abc1", "a.b", "a-b", "s1", "s99", "x", "zz/ok", "zz/ok"}[rng.Intn(9)]
			txt := set[0].Render()
			pre, post := "", ""
			if strings.HasPrefix(txt, "/p/") {
				pre = "/p"
			}
			if strings.HasSuffix(txt, "/x") {
				post = "/x"
			}
			c.Paths[i] = core.B(pre + "/" + v + post)
		}
		if flameLevel {
			m := meths[rng.Intn(len(meths))]
			switch rng.Intn(25) {
			case 0:
				m = "BREW"
			case 1:
				m = strings.ToLower(m)
			case 2:
				m = ""
			}
			c.ReqMeth = append(c.ReqMeth, m)
		}
	}
	return c
}

func runRouteLoop(r *core.Run, prop string) {
	if prop == "C01" {
		r.Rule("route sets (1-10 routes over a per-set pool of 4-6 segment shapes: static incl. regex-active literals, placeholder, multi-bind regex with catalogue expressions, match-all with/without capture, {**}, optional/empty final segment, root) registered in random order; 40/60 route-directed paths per set (instances of long/short forms, 1-2 hostile mutations, literal probes, random). Oracle: declarative derivation model, winner = lexicographic minimum of (final-matchall-deferred, rank, registration order, span); second, model-free oracle: a path is dispatched iff some accepted route admits it when registered alone in a tree of its own, and the winner does so with the same binds. Wide fan-out workload: 2/6 sets of 24k/100k routes that differ in one static segment at one tree position (subtree list, leaf list, mixed with a deeper level); every route must be found by, and only by, its own instance (an almost-injective identity of tree positions, e.g. a 32-bit digest, collides within such a set with probability ~0.07/0.69 per set; the tree's linear sibling scan makes larger sets quadratic). non-trivial = distinct (set,path) with >=2 derivations from >=2 routes, or a dead-end higher-priority branch (backtrack needed), or a match-all with >1 feasible span")
	} else {
		r.Rule("same workload as C01 biased to dispatched requests; judged: every bind of the matched route equals the model's captured substring decoded once, `route` is the canonical text, model-free predicates on %-free paths (regex value fully matches its own expression, placeholder holds one segment, match-all spans 1..capture segments), round trip Leaf.URLPath(params, optional iff used) reproduces the path with captured substrings decoded. non-trivial = distinct (route,path) with >=2 binds in one segment, or a user expression with its own groups, or an escape in a captured value, or a match-all span >=2")
	}
	r.Assume("regexp (Go standard library) is trusted for evaluating a single compiled expression; url.PathUnescape is trusted")
	routeCanaries(r)
	nSets := r.N(4000, 250000)
	nPaths := 40
	if r.Thorough() {
		nPaths = 60
	}
	r.Parallel("sets", nSets, func(w *core.W, rng *rand.Rand, i int) {
		flameLevel := rng.Intn(100) < 15
		c := genRouteCase(rng, flameLevel, nPaths)
		w.Begin("routes", c)
		judgeRouteCase(w, c, prop, nil)
	})
	if prop == "C01" {
		runWide(r)
		r.Gate("distinct_nontrivial", r.NonTrivialCount(), 500)
		for _, k := range []string{"decided:rank", "decided:registration-order", "decided:fewest-captured", "decided:final-matchall-deferred", "backtrack-needed", "not-found-agree", "flame-level-dispatches", "unknown-method-requests", "kept-tree-after-refusal", "requests-with-raw-path", "isolated-route-oracle", "served-between-registrations", "failed-registration-with-non-function-handler"} {
			r.GateCounter(k, 1)
		}
		r.GateCounter("dispatches-compared", int64(nSets)*int64(nPaths)/2)
	} else {
		r.Gate("distinct_nontrivial", r.NonTrivialCount(), 300)
		for _, k := range []string{"nt:multi-bind-segment", "nt:user-groups", "nt:escape-in-value", "nt:matchall-span>=2", "roundtrip-checked", "predicate:regex-fullmatch", "predicate:placeholder-one-segment", "predicate:matchall-span", "flame-level-params-compared", "undecodable-kept-raw"} {
			r.GateCounter(k, 1)
		}
		r.GateCounter("params-compared", int64(nSets)*int64(nPaths)/8)
	}
}

// per-worker parser cache
var workerParsers = map[*core.W]*route.Parser{}

type accRoute struct {
	idx    int
	txt    string
	method string
	ast    *rmodel.Route
}

// judgeRouteCase executes one case against the real code and the model.
func judgeRouteCase(w *core.W, c *routeCase, prop string, parser *route.Parser) {
	if parser == nil {
		parser = parserOf(w)
	}
	if c.Level == "flame" {
		judgeRouteCaseFlame(w, c, prop)
		return
	}
	model := rmodel.New()
	tree := route.NewTree()
	hit := -1
	var accepted []accRoute
	mkHandler := func(i int) route.Handler {
		return func(http.ResponseWriter, *http.Request, route.Params) { hit = i }
	}
	for i, txt := range c.Routes {
		mr, merr := rmodel.Parse(txt)
		ir, ierr, ppan := safeParse(parser, txt)
		if ppan != nil || (merr == nil) != (ierr == nil) {
			w.Count("skipped:parse-disagreement(C06)")
			continue
		}
		if merr != nil {
			continue
		}
		forms, cat, judged := model.Check(i, mr)
		if !judged {
			w.Count("skipped:odd-segment")
			continue
		}
		_, err, pan := safeAdd(tree, ir, mkHandler(i))
		implOK := err == nil && pan == nil
		if implOK != (cat == rmodel.RejNone) {
			w.Count("abandoned:accept-disagreement(C08)")
			return
		}
		if implOK {
			model.Commit(i, mr, forms)
			accepted = append(accepted, accRoute{idx: i, txt: txt})
			w.Count("routes-accepted")
			if c.Warm {
				for _, pb := range c.Paths {
					_, _, _, _ = safeMatch(tree, string(pb), nil)
				}
				w.Count("served-between-registrations")
			}
			continue
		}
		w.Count("routes-rejected-both")
		if c.Continue {
			w.Count("kept-tree-after-refusal")
			continue
		}
		// restart semantics: rebuild from the accepted routes so that nothing a
		// refused registration may have left behind influences dispatch (that is C08's subject)
		tree = route.NewTree()
		for _, a := range accepted {
			ar, _, _ := safeParse(parser, a.txt)
			if _, err, pan := safeAdd(tree, ar, mkHandler(a.idx)); err != nil || pan != nil {
				w.Count("abandoned:rebuild-failed(C08)")
				return
			}
		}
	}
	if msg := treeInvariants(tree); msg != "" {
		w.Violate("tree-invariant", c, msg)
		return
	}
	// model-free second oracle (C01): every accepted route alone in a tree of its own. A path is dispatched
	// iff some route admits it on its own, and the winner admits it on its own with the same binds. This does not
	// use the reference model at all, so it also judges the model.
	iso := map[int]route.Tree{}
	if prop == "C01" {
		for _, a := range accepted {
			ar, _, _ := safeParse(parser, a.txt)
			t := route.NewTree()
			if _, err, pan := safeAdd(t, ar, mkHandler(a.idx)); err == nil && pan == nil {
				iso[a.idx] = t
			}
		}
	}
	for _, pb := range c.Paths {
		path := string(pb)
		w.Eval()
		best, all := model.Dispatch(path, nil)
		hit = -1
		leaf, params, ok, pan := safeMatch(tree, path, nil)
		if pan != nil {
			w.Violate("match-panic", c, fmt.Sprintf("Tree.Match(%q) panicked: %v", path, pan))
			return
		}
		if ok {
			leaf.Handler()(nil, nil, params)
		}
		if prop == "C01" && len(iso) == len(accepted) {
			w.Count("isolated-route-oracle")
			admitting := -1
			for _, a := range accepted {
				if _, ip, iok, _ := safeMatch(iso[a.idx], path, nil); iok {
					if admitting < 0 {
						admitting = a.idx
					}
					if ok && a.idx == hit {
						admitting = a.idx
						for k, v := range ip {
							if params[k] != v {
								w.Violate("isolated-route-oracle", c, fmt.Sprintf("path %q: route #%d %q binds %q=%q among the other routes but %q on its own", path, hit, a.txt, k, params[k], v))
								return
							}
						}
					}
				}
			}
			switch {
			case ok && admitting != hit:
				w.Violate("isolated-route-oracle", c, fmt.Sprintf("path %q was dispatched to route #%d %q, which does not admit it when registered alone", path, hit, leaf.Route()))
				return
			case !ok && admitting >= 0:
				w.Violate("isolated-route-oracle", c, fmt.Sprintf("path %q: not found, although route #%d admits it when registered alone (an admitting route exists)", path, admitting))
				return
			}
		}
		obs := observed{found: ok, routeIdx: hit, params: params}
		if ok {
			obs.routeText = leaf.Route()
			obs.leaf = leaf
		}
		if !compareDispatch(w, c, prop, model, path, best, all, obs, "") {
			return
		}
	}
}

type observed struct {
	found     bool
	routeIdx  int
	routeText string
	params    map[string]string
	leaf      route.Leaf
	flame     bool
}

// dispatchVerdict is the pure comparator (also fed by the canaries).
func dispatchVerdict(best *rmodel.Deriv, obs observed) string {
	if (best != nil) != obs.found {
		if best != nil {
			return fmt.Sprintf("model: dispatched to route #%d %q (an admitting route exists); implementation: not found", best.Form.RouteIdx, best.Form.Route)
		}
		return fmt.Sprintf("model: no route admits the path; implementation dispatched to route #%d %q", obs.routeIdx, obs.routeText)
	}
	if best != nil && best.Form.RouteIdx != obs.routeIdx {
		return fmt.Sprintf("winner differs: model route #%d %q, implementation route #%d %q", best.Form.RouteIdx, best.Form.Route, obs.routeIdx, obs.routeText)
	}
	return ""
}

func paramsVerdict(best *rmodel.Deriv, obs observed) string {
	want := best.Params()
	for k, v := range want {
		if k == "route" && obs.flame {
			continue // a bind that is itself called `route` is overwritten by the reserved parameter (checked below)
		}
		got, ok := obs.params[k]
		if !ok {
			return fmt.Sprintf("bind %q missing; want %q", k, v)
		}
		if got != v {
			return fmt.Sprintf("bind %q = %q, want %q (captured raw %q)", k, got, v, best.Raw[k])
		}
	}
	if obs.flame {
		if obs.params["route"] != best.Form.Route {
			return fmt.Sprintf("`route` parameter = %q, want canonical text %q", obs.params["route"], best.Form.Route)
		}
	}
	return ""
}

func compareDispatch(w *core.W, c interface{}, prop string, model *rmodel.Model, path string, best *rmodel.Deriv, all []*rmodel.Deriv, obs observed, tag string) bool {
	w.Count("dispatches-compared")
	if obs.flame {
		w.Count("flame-level-dispatches")
	}
	if msg := dispatchVerdict(best, obs); msg != "" {
		if prop == "C01" {
			w.Violate("dispatch", c, fmt.Sprintf("path %q %s: %s", path, tag, msg))
			return false
		}
		w.Count("other-property-deviation(C01)")
		// C02 still has something to say about what the implementation did dispatch: the values handed to the
		// handler must respect the declaration of the route that was chosen, whichever route the model expected
		if obs.found {
			if rt := model.Routes[obs.routeIdx]; rt != nil {
				if msg := observedRoutePredicates(w, path, rt, obs); msg != "" {
					w.Violate("predicate", c, fmt.Sprintf("path %q dispatched to route #%d %q %s: %s", path, obs.routeIdx, rt.Canon(), tag, msg))
					return false
				}
			}
		}
		return true
	}
	if best == nil {
		w.Count("not-found-agree")
		return true
	}
	w.Count("dispatched-agree")
	if prop == "C01" {
		by := rmodel.DecidedBy(best, all)
		w.Count("decided:" + by)
		routes := map[int]bool{}
		spansOfWinner := 0
		for _, d := range all {
			routes[d.Form.RouteIdx] = true
			if d.Form == best.Form {
				spansOfWinner++
			}
		}
		bt := model.NeedsBacktrack(path, best, nil)
		if bt {
			w.Count("backtrack-needed")
		}
		if len(routes) >= 2 || bt || spansOfWinner > 1 {
			fp := core.Hash64(strings.Join(routesOf(model), "\n"), path)
			w.NonTrivial(fp, func() interface{} {
				return map[string]interface{}{"routes": routesOf(model), "path": core.B(path), "derivations": len(all), "winner": best.Form.Route, "decided_by": by, "backtrack_needed": bt}
			})
		}
		w.Sample(func() interface{} {
			return map[string]interface{}{"routes": routesOf(model), "path": core.B(path), "winner": best.Form.Route}
		})
		return true
	}
	// ---- C02
	w.Count("params-compared")
	if obs.flame {
		w.Count("flame-level-params-compared")
	}
	if msg := paramsVerdict(best, obs); msg != "" {
		w.Violate("params", c, fmt.Sprintf("path %q route %q %s: %s", path, best.Form.Route, tag, msg))
		return false
	}
	if msg := paramPredicates(w, path, best, obs); msg != "" {
		w.Violate("predicate", c, fmt.Sprintf("path %q route %q %s: %s", path, best.Form.Route, tag, msg))
		return false
	}
	// non-triviality
	nt := false
	for _, s := range best.Form.Segs {
		if len(s.Binds) >= 2 {
			nt = true
			w.Count("nt:multi-bind-segment")
		}
		for _, e := range s.Exprs {
			if e != "" {
				if re, err := regexp.Compile(e); err == nil && re.NumSubexp() > 0 {
					nt = true
					w.Count("nt:user-groups")
				}
			}
		}
	}
	for k, v := range best.Raw {
		if strings.Contains(v, "%") {
			nt = true
			w.Count("nt:escape-in-value")
			if _, err := url.PathUnescape(v); err != nil && obs.params[k] == v {
				w.Count("undecodable-kept-raw")
			}
		}
	}
	for i, s := range best.Form.Segs {
		if s.Kind == rmodel.KAll && best.Spans[i] >= 2 {
			nt = true
			w.Count("nt:matchall-span>=2")
		}
	}
	if nt {
		w.NonTrivial(core.Hash64(best.Form.Route, path), func() interface{} {
			return map[string]interface{}{"route": best.Form.Route, "path": core.B(path), "params": core.BMap(best.Params())}
		})
	}
	w.Sample(func() interface{} {
		return map[string]interface{}{"route": best.Form.Route, "path": core.B(path), "params": core.BMap(best.Params())}
	})
	return true
}

func routesOf(m *rmodel.Model) []string {
	idx := make([]int, 0, len(m.Routes))
	for i := range m.Routes {
		idx = append(idx, i)
	}
	sort.Ints(idx)
	out := make([]string, len(idx))
	for k, i := range idx {
		out[k] = m.Routes[i].Canon()
	}
	return out
}

// paramPredicates evaluates the model-free predicates of C02 on observed values
// and the round trip through Leaf.URLPath.
func paramPredicates(w *core.W, path string, best *rmodel.Deriv, obs observed) string {
	ps := rmodel.SplitPath(path)
	pctFree := !strings.Contains(path, "%")
	if pctFree {
		// observed values are raw substrings; judge them directly against the route's own declaration
		for _, s := range best.Form.Segs {
			if obs.flame && len(s.Binds) > 0 {
				skip := false
				for _, b := range s.Binds {
					if b == "route" {
						skip = true // replaced by the reserved parameter inside a handler
					}
				}
				if skip {
					continue
				}
			}
			switch s.Kind {
			case rmodel.KRegex:
				for i, b := range s.Binds {
					if s.Exprs[i] == "" {
						if obs.params[b] == "" || strings.Contains(obs.params[b], "/") {
							return fmt.Sprintf("bind %q = %q is not a non-empty part of one segment", b, obs.params[b])
						}
						continue
					}
					re, err := regexp.Compile("^(?:" + s.Exprs[i] + ")$")
					if err != nil {
						continue
					}
					w.Count("predicate:regex-fullmatch")
					if !re.MatchString(obs.params[b]) {
						return fmt.Sprintf("bind %q = %q does not fully match its own expression /%s/", b, obs.params[b], s.Exprs[i])
					}
				}
			case rmodel.KPlaceholder:
				w.Count("predicate:placeholder-one-segment")
				if strings.Contains(obs.params[s.Binds[0]], "/") {
					return fmt.Sprintf("placeholder %q = %q spans more than one segment", s.Binds[0], obs.params[s.Binds[0]])
				}
			case rmodel.KAll:
				w.Count("predicate:matchall-span")
				n := strings.Count(obs.params[s.Binds[0]], "/") + 1
				if s.Capture > 0 && n > s.Capture {
					return fmt.Sprintf("match-all %q = %q spans %d segments, capture limit %d", s.Binds[0], obs.params[s.Binds[0]], n, s.Capture)
				}
			}
		}
	}
	if obs.leaf == nil {
		return ""
	}
	// round trip: substitute the values back (optional segment iff the request used it)
	want := expectedRoundTrip(best, ps)
	vals := map[string]string{}
	for k, v := range obs.params {
		if k != "route" || !obs.flame {
			vals[k] = v
		}
	}
	if _, has := best.Raw["route"]; has && obs.flame {
		return "" // the value of a bind that is itself called `route` is replaced by the reserved parameter: nothing to substitute back
	}
	usedOptional := !best.Form.Short
	var got string
	func() {
		defer func() {
			if x := recover(); x != nil {
				got = fmt.Sprintf("<panic: %v>", x)
			}
		}()
		got = obs.leaf.URLPath(vals, usedOptional)
	}()
	w.Count("roundtrip-checked")
	if got != want {
		return fmt.Sprintf("round trip: URLPath(params, withOptional=%v) = %q, want %q", usedOptional, got, want)
	}
	return ""
}

// observedRoutePredicates judges the values the implementation bound against the declaration of the route it
// chose - without the model's derivation (used when model and implementation disagree on the dispatch).
func observedRoutePredicates(w *core.W, path string, rt *rmodel.Route, obs observed) string {
	if strings.Contains(path, "%") {
		return ""
	}
	for i := range rt.Segs {
		sg, _ := rmodel.Classify(&rt.Segs[i])
		for _, b := range sg.Binds {
			if b == "route" && obs.flame {
				return ""
			}
		}
		switch sg.Kind {
		case rmodel.KPlaceholder:
			if v, ok := obs.params[sg.Binds[0]]; ok && strings.Contains(v, "/") {
				return fmt.Sprintf("placeholder %q = %q spans more than one segment", sg.Binds[0], v)
			}
		case rmodel.KAll:
			w.Count("predicate:matchall-span(observed route)")
			if v, ok := obs.params[sg.Binds[0]]; ok && sg.Capture > 0 && strings.Count(v, "/")+1 > sg.Capture {
				return fmt.Sprintf("match-all %q = %q spans %d segments, capture limit %d", sg.Binds[0], v, strings.Count(v, "/")+1, sg.Capture)
			}
		case rmodel.KRegex:
			for k, b := range sg.Binds {
				if sg.Exprs[k] == "" {
					continue
				}
				if re, err := regexp.Compile("^(?:" + sg.Exprs[k] + ")$"); err == nil {
					if v, ok := obs.params[b]; ok && !re.MatchString(v) {
						return fmt.Sprintf("bind %q = %q does not fully match its own expression /%s/", b, v, sg.Exprs[k])
					}
				}
			}
		}
	}
	return ""
}

// expectedRoundTrip rebuilds the request path with every captured substring
// replaced by its once-decoded value.
func expectedRoundTrip(d *rmodel.Deriv, ps []string) string {
	dec := func(s string) string {
		if u, err := url.PathUnescape(s); err == nil {
			return u
		}
		return s
	}
	var sb strings.Builder
	j := 0
	for i, s := range d.Form.Segs {
		span := d.Spans[i]
		sb.WriteByte('/')
		switch s.Kind {
		case rmodel.KStatic:
			sb.WriteString(ps[j])
		case rmodel.KPlaceholder:
			sb.WriteString(dec(ps[j]))
		case rmodel.KAll:
			sb.WriteString(dec(strings.Join(ps[j:j+span], "/")))
		case rmodel.KRegex:
			seg := ps[j]
			loc := s.Re.FindStringSubmatchIndex(seg)
			pos := 0
			for _, g := range s.Groups {
				a, b := loc[2*g], loc[2*g+1]
				if a < 0 {
					continue
				}
				sb.WriteString(seg[pos:a])
				sb.WriteString(dec(seg[a:b]))
				pos = b
			}
			sb.WriteString(seg[pos:])
		}
		j += span
	}
	return sb.String()
}

func judgeRouteCaseFlame(w *core.W, c *routeCase, prop string) {
	models := map[string]*rmodel.Model{}
	var accepted []accRoute
	hit := -1
	var seen map[string]string
	nf := false
	drift := ""
	build := func(acc []accRoute) (*flamego.Flame, bool) {
		f := flamego.NewWithLogger(io.Discard)
		if len(c.Routes)%3 == 1 {
			// built-in middleware in front (request logger, renderer): what the route's handler sees is the same
			f.Use(flamego.Logger(), flamego.Renderer())
			w.Count("flame-instances-with-built-in-middleware-in-front")
		}
		if len(c.Routes)%2 == 0 {
			// an application middleware that looks at the bind parameters before it calls Next() and again afterwards:
			// they are the request's for as long as the request is being served (whatever the route's handler left
			// in the map is the handler's business)
			f.Use(paramsWatch(&drift))
			w.Count("flame-instances-with-a-middleware-reading-parameters-after-next")
		}
		f.NotFound(func() { nf = true })
		for _, a := range acc {
			if _, pan := flameRegister(f, a.method, a.txt, a.idx, &hit, &seen); pan != nil {
				return nil, false
			}
		}
		return f, true
	}
	f, _ := build(nil)
	for i, txt := range c.Routes {
		method := c.Methods[i]
		mr, merr := rmodel.Parse(txt)
		if merr != nil {
			// outside the grammar per the reference recogniser: registration must fail; not modelled here
			continue
		}
		isBad := false
		for _, b := range c.BadH {
			isBad = isBad || b == i
		}
		if isBad {
			idx := i
			var pan interface{}
			func() {
				defer func() { pan = recover() }()
				f.Route(method, txt, []flamego.Handler{func() { hit = idx }, 42})
			}()
			if pan == nil {
				w.Count("unjudged:non-function-handler-accepted")
				return
			}
			w.Count("failed-registration-with-non-function-handler")
			continue
		}
		m := models[method]
		if m == nil {
			m = rmodel.New()
			models[method] = m
		}
		forms, cat, judged := m.Check(i, mr)
		if !judged {
			w.Count("skipped:odd-segment")
			continue
		}
		_, pan := flameRegister(f, method, txt, i, &hit, &seen)
		if (pan == nil) != (cat == rmodel.RejNone) {
			w.Count("abandoned:accept-disagreement(C08)")
			return
		}
		if pan == nil {
			m.Commit(i, mr, forms)
			accepted = append(accepted, accRoute{idx: i, txt: txt, method: method})
			if c.Warm {
				for k, pb := range c.Paths {
					func() {
						defer func() { _ = recover() }()
						f.ServeHTTP(httptest.NewRecorder(), &http.Request{Method: c.ReqMeth[k], URL: &url.URL{Path: string(pb)}, Header: http.Header{}, RequestURI: string(pb)})
					}()
				}
				w.Count("served-between-registrations")
			}
			continue
		}
		if c.Continue {
			w.Count("kept-tree-after-refusal")
			continue
		}
		var ok bool
		if f, ok = build(accepted); !ok {
			w.Count("abandoned:rebuild-failed(C08)")
			return
		}
	}
	for k, pb := range c.Paths {
		path := string(pb)
		method := c.ReqMeth[k]
		w.Eval()
		var best *rmodel.Deriv
		var all []*rmodel.Deriv
		m := models[method]
		if m != nil {
			best, all = m.Dispatch(path, nil)
		} else {
			m = rmodel.New()
		}
		if !isKnownMethod(method) {
			w.Count("unknown-method-requests")
		}
		hit, seen, nf = -1, nil, false
		drift = ""
		rec := httptest.NewRecorder()
		req := &http.Request{Method: method, URL: &url.URL{Path: path}, Header: http.Header{}, RequestURI: path}
		if c.RawPath {
			req.URL.RawPath = nonCanonicalEncoding(path, k)
			w.Count("requests-with-raw-path")
		}
		if k%5 == 3 {
			// headers that other frameworks let override the method or the path: here the request line decides
			other := c.Methods[k%len(c.Methods)]
			req.Header.Set([]string{"X-HTTP-Method-Override", "X-Method-Override", "X-HTTP-Method"}[k%3], other)
			req.Header.Set([]string{"X-Original-URL", "X-Rewrite-URL", "X-Forwarded-Prefix"}[k%3], "/"+strings.Trim(c.Routes[k%len(c.Routes)], "/"))
			w.Count("requests-with-override-headers")
		}
		var pan interface{}
		func() {
			defer func() { pan = recover() }()
			f.ServeHTTP(rec, req)
		}()
		if pan != nil {
			w.Violate("serve-panic", c, fmt.Sprintf("ServeHTTP(%s %q) panicked: %v", method, path, pan))
			return
		}
		if (hit >= 0) == nf {
			w.Violate("chain-count", c, fmt.Sprintf("ServeHTTP(%s %q): route handler ran=%v and not-found ran=%v", method, path, hit >= 0, nf))
			return
		}
		if drift != "" {
			w.Violate("params-after-next", c, fmt.Sprintf("ServeHTTP(%s %q): %s", method, path, drift))
			return
		}
		if v, ok := seen["left-behind-by-an-earlier-request"]; ok {
			// the shared route handler writes this key into the map it was given after it has recorded what it saw
			w.Violate("params-of-another-request", c, fmt.Sprintf("ServeHTTP(%s %q): the handler's parameters hold what the handler of an earlier request (route %q) wrote into its own parameter map", method, path, v))
			return
		}
		obs := observed{found: hit >= 0, routeIdx: hit, params: seen, flame: true}
		if obs.found {
			obs.routeText = seen["route"]
		}
		if !compareDispatch(w, c, prop, m, path, best, all, obs, "(Flame.ServeHTTP "+method+")") {
			return
		}
	}
}

// paramsWatch is an application middleware that looks at the bind parameters before it calls Next() and again
// afterwards; what it finds changed or gone is left in *drift.
func paramsWatch(drift *string) flamego.Handler {
	return func(ctx flamego.Context) {
		before := map[string]string{}
		for k, v := range ctx.Params() {
			before[k] = v
		}
		routeBefore := ctx.Param("route")
		ctx.Next()
		after := ctx.Params()
		for k, v := range before {
			if got, ok := after[k]; !ok || got != v {
				*drift = fmt.Sprintf("bind parameter %q was %q before Next() and is %q (present=%v) after it", k, v, got, ok)
			}
		}
		if got := ctx.Param("route"); got != routeBefore {
			*drift = fmt.Sprintf("Param(\"route\") was %q before Next() and is %q after it", routeBefore, got)
		}
	}
}

// nonCanonicalEncoding returns a valid percent-encoding of path that differs from the canonical one
// (what URL.RawPath holds after parsing e.g. "/users/%61dmin" or "/files/a%2Fb"); routing is defined on Path.
func nonCanonicalEncoding(path string, salt int) string {
	const hex = "0123456789abcdef"
	var sb strings.Builder
	for i := 0; i < len(path); i++ {
		b := path[i]
		if b == '/' && (i+salt)%5 != 0 {
			sb.WriteByte(b)
			continue
		}
		if (i+salt)%3 == 0 || b == '%' || b < 0x21 || b > 0x7e {
			sb.WriteByte('%')
			sb.WriteByte(hex[b>>4])
			sb.WriteByte(hex[b&15])
			continue
		}
		sb.WriteByte(b)
	}
	return sb.String()
}

func isKnownMethod(m string) bool {
	switch m {
	case "GET", "POST", "PUT", "DELETE", "PATCH", "OPTIONS", "HEAD", "CONNECT", "TRACE":
		return true
	}
	return false
}

// flameRegister registers one single-method route whose handler records its
// index and a copy of the parameters; a registration panic is returned.
func flameRegister(f *flamego.Flame, method, txt string, idx int, hit *int, seen *map[string]string) (rt *flamego.Route, pan interface{}) {
	return flameRegisterVia(f, false, method, txt, idx, hit, seen)
}

// flameRegisterVia: viaRoutes = the method string is a comma list given to Routes() (one Route object for all
// of them); otherwise it is given to Route() as it is.
func flameRegisterVia(f *flamego.Flame, viaRoutes bool, method, txt string, idx int, hit *int, seen *map[string]string) (rt *flamego.Route, pan interface{}) {
	return flameRegisterArgs(f, viaRoutes, method, nil, txt, idx, hit, seen)
}

// flameRegisterArgs: extra = further method names handed to Routes() as leading string arguments.
func flameRegisterArgs(f *flamego.Flame, viaRoutes bool, method string, extra []string, txt string, idx int, hit *int, seen *map[string]string) (rt *flamego.Route, pan interface{}) {
	defer func() {
		if x := recover(); x != nil {
			pan = x
		}
	}()
	h := func(c flamego.Context) {
		*hit = idx
		reqViews.Store(hit, reqView(c.Request().Request))
		cp := map[string]string{}
		for k, v := range c.Params() {
			cp[k] = v
		}
		*seen = cp
		// handlers own the map they are given: what one request leaves in it must never reach another request
		c.Params()["left-behind-by-an-earlier-request"] = txt
	}
	if viaRoutes {
		var args []flamego.Handler
		for _, m := range extra {
			args = append(args, m)
		}
		rt = f.Routes(txt, method, append(args, h)...)
		return
	}
	if method == getWithAutoHead {
		// Get() while AutoHead is on: a GET registration and a HEAD registration of the same route, in that order
		f.AutoHead(true)
		defer f.AutoHead(false)
		rt = f.Get(txt, h)
		return
	}
	rt = f.Route(method, txt, []flamego.Handler{h})
	return
}

// getWithAutoHead is the method token of a registration made with Get() while AutoHead is on.
const getWithAutoHead = "GET+AUTOHEAD"

// reqViews: what the route handler registered by flameRegister* saw of the request it answered, keyed by the
// caller's hit pointer. The framework routes a request; it does not write it: the handler sees the method, the
// path and the header the client sent.
var reqViews sync.Map

// reqView renders method, path and header of a request (header names as stored, sorted).
func reqView(r *http.Request) string {
	names := make([]string, 0, len(r.Header))
	for k := range r.Header {
		names = append(names, k)
	}
	sort.Strings(names)
	var sb strings.Builder
	sb.WriteString(r.Method + " " + r.URL.Path)
	for _, k := range names {
		fmt.Fprintf(&sb, " | %s: %q", k, r.Header[k])
	}
	return sb.String()
}

// seenRequest: the view recorded for the caller's hit pointer ("" if its handler has not run).
func seenRequest(hit *int) string {
	v, ok := reqViews.LoadAndDelete(hit)
	if !ok {
		return ""
	}
	return v.(string)
}

func parserOf(w *core.W) *route.Parser {
	parsersMu.Lock()
	defer parsersMu.Unlock()
	p := workerParsers[w]
	if p == nil {
		p = newImplParser()
		workerParsers[w] = p
	}
	return p
}

// suiteAnchor: the route table and the hand-written expectations of the repository's own TestTree_Match,
// transcribed. The reference model must agree with every one of them (an anchor that is independent of both the
// generators and the implementation's code).
var suiteAnchorRoutes = []string{
	"/webapi",
	"/webapi/users/?{id}",
	"/webapi/users/ids/{id: /[0-9]+/}",
	"/webapi/users/ids/{sha: /[a-z0-9]{7,40}/}",
	"/webapi/users/sessions/{paths: **}",
	"/webapi/users/events/{names: **}/feed",
	"/webapi/users/settings/?profile",
	"/webapi/projects/{name}/hashes/{paths: **, capture: 2}/blob/{lineno: /[0-9]+/}",
	"/webapi/projects/{name}/commit/{sha: /[a-z0-9]{7,40}/}/main.go",
	`/webapi/projects/{name}/commit/{sha: /[a-z0-9]{7,40}/}{ext: /(\.(patch|diff))?/}`,
	"/webapi/articles/{category}/{year: /[0-9]{4}/}-{month}-{day}.json",
	"/webapi/groups/{name: **, capture: 2}",
	"/webapi/special/test@$",
	"/webapi/special/%_",
}

var suiteAnchorCases = []struct {
	path   string
	ok     bool
	route  int
	params map[string]string
}{
	{"/webapi", true, 0, map[string]string{}},
	{"/webapi/users", true, 1, map[string]string{}},
	{"/webapi/users/12", true, 1, map[string]string{"id": "12"}},
	{"/webapi/users/ids/123", true, 2, map[string]string{"id": "123"}},
	{"/webapi/users/ids/368c7b2d0b1e0b243b2", true, 3, map[string]string{"sha": "368c7b2d0b1e0b243b2"}},
	{"/webapi/users/sessions/ab/cd/ef/gh", true, 4, map[string]string{"paths": "ab/cd/ef/gh"}},
	{"/webapi/users/events/ab/cd/ef/gh/feed", true, 5, map[string]string{"names": "ab/cd/ef/gh"}},
	{"/webapi/projects/flamego/hashes/src/lib/blob/15", true, 7, map[string]string{"name": "flamego", "paths": "src/lib", "lineno": "15"}},
	{"/webapi/projects/flamego/commit/368c7b2d0b1e0b243b2/main.go", true, 8, map[string]string{"name": "flamego", "sha": "368c7b2d0b1e0b243b2"}},
	{"/webapi/projects/flamego/commit/368c7b2d0b1e0b243b2", true, 9, map[string]string{"name": "flamego", "sha": "368c7b2d0b1e0b243b2", "ext": ""}},
	{"/webapi/projects/flamego/commit/368c7b2d0b1e0b243b2.patch", true, 9, map[string]string{"name": "flamego", "sha": "368c7b2d0b1e0b243b2", "ext": ".patch"}},
	{"/webapi/articles/social/2021-05-03.json", true, 10, map[string]string{"category": "social", "year": "2021", "month": "05", "day": "03"}},
	{"/webapi/groups/flamego/flamego", true, 11, map[string]string{"name": "flamego/flamego"}},
	{"/webapi/special/test@$", true, 12, map[string]string{}},
	{"/webapi/special/%_", true, 13, map[string]string{}},
	{"/webapi/users/settings", true, 6, map[string]string{}},
	{"/webapi/users/settings/profile", true, 6, map[string]string{}},
	{"/webapi//", false, 0, nil},
	{"/webapi/users/ids/abc", false, 0, nil},
	{"/webapi/projects/flamego/hashes/src/lib/blob/abc", false, 0, nil},
	{"/webapi/projects/flamego/commit/368c7b/main.go", false, 0, nil},
	{"/webapi/articles/social/21-05-03.json", false, 0, nil},
	{"/webapi/articles/social/year-05-03.json", false, 0, nil},
	{"/webapi/articles/social/2021-05.json", false, 0, nil},
	{"/webapi/groups/flamego/flamego/flamego", false, 0, nil},
	{"/webapi/projects/flamego/hashes/src/lib/main.c/blob/15", false, 0, nil},
}

func suiteAnchor(r *core.Run) {
	m := rmodel.New()
	for i, t := range suiteAnchorRoutes {
		rt, err := rmodel.Parse(t)
		if err != nil {
			r.Canary("suite anchor: reference parser accepts "+t, false)
			return
		}
		if cat, _ := m.Add(i, rt); cat != rmodel.RejNone {
			r.Canary("suite anchor: model accepts "+t, false)
			return
		}
	}
	all := true
	for _, c := range suiteAnchorCases {
		best, _ := m.Dispatch(c.path, nil)
		ok := (best != nil) == c.ok
		if ok && best != nil {
			ok = best.Form.RouteIdx == c.route
			got := best.Params()
			for k, v := range c.params {
				if got[k] != v {
					ok = false
				}
			}
			if len(got) != len(c.params) {
				ok = false
			}
		}
		if !ok {
			all = false
			r.Note("suite anchor disagreement on " + c.path)
		}
	}
	r.Canary("reference model agrees with the 26 hand-written expectations of the repository's TestTree_Match", all)
}

// routeCanaries feeds the comparators synthetic observations that violate the
// property; every one must be flagged.
func routeCanaries(r *core.Run) {
	suiteAnchor(r)
	mk := func(txts ...string) *rmodel.Model {
		m := rmodel.New()
		for i, t := range txts {
			rt, err := rmodel.Parse(t)
			if err != nil {
				panic(err)
			}
			if cat, _ := m.Add(i, rt); cat != rmodel.RejNone {
				panic("canary route refused: " + t + " " + string(cat))
			}
		}
		return m
	}
	m := mk("/a/{x}", "/a/b", "/{p: **}")
	best, _ := m.Dispatch("/a/b", nil)
	r.Canary("swapped winner", dispatchVerdict(best, observed{found: true, routeIdx: 0, routeText: "/a/{x}"}) != "")
	r.Canary("not-found although admitted", dispatchVerdict(best, observed{found: false}) != "")
	none, _ := m.Dispatch("", nil)
	_ = none
	m2 := mk("/a/b")
	nb, _ := m2.Dispatch("/zzz", nil)
	r.Canary("dispatched although nothing admits", dispatchVerdict(nb, observed{found: true, routeIdx: 0}) != "")
	m3 := mk("/u/{x}-{y: /[0-9]+/}")
	b3, _ := m3.Dispatch("/u/ab-12", nil)
	r.Canary("value in the wrong bind", paramsVerdict(b3, observed{found: true, params: map[string]string{"x": "12", "y": "ab"}}) != "")
	r.Canary("double decoding", func() bool {
		m4 := mk("/{x}")
		b4, _ := m4.Dispatch("/%2541", nil)
		return paramsVerdict(b4, observed{found: true, params: map[string]string{"x": "A"}}) != ""
	}())
	r.Canary("wrong route parameter", paramsVerdict(b3, observed{found: true, flame: true, params: map[string]string{"x": "ab", "y": "12", "route": "/u/{x}-{y}"}}) != "")
}
