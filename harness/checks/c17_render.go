package checks

import (
	"bytes"
	gocontext "context"
	"encoding/json"
	"encoding/xml"
	"fmt"
	"io"
	"math/rand"
	"net/http"
	"net/url"
	"reflect"
	"strings"

	"github.com/flamego/flamego"
	"github.com/flamego/flamego/verifharness/core"
)

// renderCase: one Render call with one option set (C17).
type renderCase struct {
	Kind       string          `json:"kind"` // json | xml | binary | text
	Status     int             `json:"status"`
	Charset    string          `json:"charset,omitempty"`
	JSONIndent string          `json:"json_indent,omitempty"`
	XMLIndent  string          `json:"xml_indent,omitempty"`
	Depth      int             `json:"handlers_between"` // handlers between Renderer and the rendering handler
	Where      string          `json:"where"`            // app (Use) | group | route : where Renderer is installed
	JSONVal    json.RawMessage `json:"json_value,omitempty"`
	XMLVal     *xmlDoc         `json:"xml_value,omitempty"`
	Bytes      core.B          `json:"bytes,omitempty"`
	ErrValue   bool            `json:"json_value_implements_error,omitempty"` // the JSON value is a struct (decoded from json_value) whose type also has an Error method
	PresetCT   bool            `json:"content_type_preset_by_earlier_handler,omitempty"`
	Overlap    bool            `json:"overlapping_second_request,omitempty"`                        // a second request passes the Renderer middleware while this one holds its Render and has not rendered yet
	Spread     bool            `json:"options_passed_as_slice_then_overwritten,omitempty"`          // Renderer(slice...) and the caller reuses the slice afterwards: the middleware keeps the options it was created with
	JSONGo     string          `json:"json_go_value,omitempty"`                                     // json: the value is this Go value instead of json_value: nil-slice ([]string(nil)) | nil-map | nil-ptr | empty-slice | nil-in-struct. The body is what the standard encoder writes for it
	EditCT     bool            `json:"earlier_response_edited_its_content_type_in_place,omitempty"` // an earlier request of the same kind on the same instance appended to element 0 of its own Content-Type header value (in place, through the header map)
	LargeFirst int             `json:"earlier_big_document_bytes,omitempty"`                        // >0: the same instance (same Renderer) first answers another request with a JSON (even) or XML (odd) document of about this many bytes; this response is what it would be without that
	FailFirst  string          `json:"earlier_render_failed,omitempty"`                             // an earlier request (same instance, or another instance of the process) rendered a value that cannot be encoded: xml-late (fails after several KiB of output) | json (fails at once). Nothing of it may reach this response
	Query      string          `json:"raw_query,omitempty"`                                         // the request's query string: nothing in it is an argument of the render
	CtxDone    bool            `json:"request_context_done_before_rendering,omitempty"`             // the rendering handler cancels the request's context first (a time-limit pattern that reports 504 through the renderer): the render is still sent
	Counting   bool            `json:"value_counts_its_encodings,omitempty"`                        // json | xml: the value's marshaler reports how many times it has been asked: the body is the first encoding
	Big        int             `json:"value_padded_to_bytes,omitempty"`                             // the value is padded to about this many bytes (xml: the title; json: a string; binary/text: the bytes) - sizes around the buffer sizes of encoders and writers. Status and header go out first whatever the size
	ReqHdr     [][2]string     `json:"request_headers,omitempty"`                                   // range / conditional / negotiation headers of the request: a render sends what it was given, whatever the request would have preferred
	Get        bool            `json:"get_request,omitempty"`                                       // the route is registered for GET and asked with GET (default: POST)
	Head       bool            `json:"head_request,omitempty"`                                      // the route is registered for HEAD and asked with HEAD: same status and header, no body, and the render ends like any other
	EnvMade    string          `json:"env_when_renderer_was_created,omitempty"`                     // process environment while Renderer(...) was called ("" = untouched; serial cases only)
	EnvServed  string          `json:"env_when_request_was_served,omitempty"`                       // process environment while the request was served: what is rendered depends on neither
}

// c17Payload is an ordinary, fully encodable API payload that happens to implement error as well.
type c17Payload struct {
	Code    int      `json:"code"`
	Message string   `json:"message"`
	Tags    []string `json:"tags,omitempty"`
}

func (p c17Payload) Error() string { return p.Message }

type xmlItem struct {
	K string `xml:"k,attr" json:"k"`
	V string `xml:",chardata" json:"v"`
}

type xmlDoc struct {
	XMLName xml.Name  `xml:"doc" json:"-"`
	ID      int       `xml:"id,attr" json:"id"`
	Name    string    `xml:"name,attr" json:"name"`
	Title   string    `xml:"title" json:"title"`
	Items   []xmlItem `xml:"items>item" json:"items,omitempty"`
	Note    *string   `xml:"note,omitempty" json:"note,omitempty"`
}

func init() {
	register(&Check{ID: "C17", Run: runC17, Replay: func(w *core.W, kind string, raw json.RawMessage) {
		var c renderCase
		if err := json.Unmarshal(raw, &c); err != nil {
			w.R.Inconclusive("replay case does not decode: " + err.Error())
			return
		}
		w.Begin("render", &c)
		judgeRender(w, &c)
	}})
}

var renderStrings = []string{"", "a", "<b>&\"'", "x\ny", "\t", "é世界", "</doc>", "]]>", "  pad  ", "\u2028", "0", "null", strings.Repeat("z", 200), "\u0001ctl", "a\\b", "\ufeffhello world!", "\ufeff", "hello\ufeff", "\ufeff\ufeffx"}

func genJSONValue(rng *rand.Rand, depth int) interface{} {
	k := rng.Intn(8)
	if depth >= 3 && k < 3 {
		k = 3 + rng.Intn(5)
	}
	switch k {
	case 0, 1:
		m := map[string]interface{}{}
		for i := rng.Intn(4); i > 0; i-- {
			m[renderStrings[rng.Intn(len(renderStrings))]] = genJSONValue(rng, depth+1)
		}
		return m
	case 2:
		a := []interface{}{}
		for i := rng.Intn(4); i > 0; i-- {
			a = append(a, genJSONValue(rng, depth+1))
		}
		return a
	case 3:
		return renderStrings[rng.Intn(len(renderStrings))]
	case 4:
		return []float64{0, 1, -1, 3.5, 1e21, -2.25e-7, 123456789, 0.1}[rng.Intn(8)]
	case 5:
		return rng.Intn(2) == 0
	case 6:
		return nil
	default:
		return float64(rng.Intn(100000) - 50000)
	}
}

func xmlSafe(s string) string {
	// XML cannot carry most control characters at all
	return strings.Map(func(r rune) rune {
		if r < 0x20 && r != '\n' && r != '\t' {
			return -1
		}
		return r
	}, s)
}

var c17ReqHeaders = [][2]string{
	{"Range", "bytes=0-3"}, {"Range", "bytes=0-0,2-3"}, {"Range", "bytes=100000-"}, {"Range", "pages=1"}, {"If-Range", "\"x\""},
	{"If-None-Match", "*"}, {"If-None-Match", "\"abc\""}, {"If-Match", "\"nope\""}, {"If-Modified-Since", "Fri, 01 Jan 2100 00:00:00 GMT"}, {"If-Unmodified-Since", "Thu, 01 Jan 1970 00:00:00 GMT"},
	{"Accept", "application/xml"}, {"Accept", "text/plain;q=1, */*;q=0"}, {"Accept-Encoding", "gzip, br"}, {"Accept-Charset", "iso-8859-1"}, {"Accept-Language", "de"},
	{"Content-Type", "application/xml"}, {"Prefer", "return=minimal"}, {"Expect", "100-continue"}, {"TE", "trailers"}, {"Connection", "close"}, {"Cache-Control", "no-cache"}, {"X-Requested-With", "XMLHttpRequest"},
}

func genRenderCase(rng *rand.Rand) *renderCase {
	c := &renderCase{
		Kind:       []string{"json", "xml", "binary", "text"}[rng.Intn(4)],
		Status:     []int{200, 201, 202, 204, 301, 400, 404, 418, 500, 503, 100 + rng.Intn(500), 599, 600, 999, 600 + rng.Intn(400)}[rng.Intn(15)],
		Charset:    []string{"", "", "utf-8", "gbk", "ISO-8859-1"}[rng.Intn(5)],
		JSONIndent: []string{"", "", "  ", "\t", "    "}[rng.Intn(5)],
		XMLIndent:  []string{"", "", "  ", "\t", "--", ". ", "|   ", "\u00a0", "\n"}[rng.Intn(9)],
		Depth:      rng.Intn(3),
		Where:      []string{"app", "group", "route"}[rng.Intn(3)],
		Overlap:    rng.Intn(5) == 0,
		Head:       rng.Intn(6) == 0,
		Get:        rng.Intn(3) == 0,
		PresetCT:   rng.Intn(4) == 0,
		Spread:     rng.Intn(6) == 0,
		EditCT:     rng.Intn(8) == 0,
		FailFirst:  []string{"", "", "", "", "", "", "", "", "xml-late", "json"}[rng.Intn(10)],
		Query:      []string{"", "", "", "pretty", "pretty=true&page=2", "page=2&pretty=false", "indent=4", "format=xml", "callback=cb", "_method=GET", "charset=gbk"}[rng.Intn(11)],
		CtxDone:    rng.Intn(10) == 0,
		Counting:   rng.Intn(12) == 0,
	}
	if c.Overlap {
		c.Head = false // the overlapping request is recognised by its body
	}
	if rng.Intn(40) == 0 {
		c.Big = []int{2047, 2048, 2049, 3000, 4095, 4096, 4097, 8192, 8193, 32767, 32768, 32769, 40000, 65535, 65536, 65537, 100000, 1 << 20}[rng.Intn(18)]
	}
	if rng.Intn(4) == 0 {
		for n := 1 + rng.Intn(2); n > 0; n-- {
			c.ReqHdr = append(c.ReqHdr, c17ReqHeaders[rng.Intn(len(c17ReqHeaders))])
		}
	}
	switch c.Kind {
	case "json":
		b, err := json.Marshal(genJSONValue(rng, 0))
		if err != nil {
			panic(err)
		}
		c.JSONVal = b
		if rng.Intn(6) == 0 {
			c.JSONGo = []string{"nil-slice", "nil-map", "nil-ptr", "empty-slice", "nil-in-struct", "raw-message", "raw-message-ptr", "marshaler-with-spaces"}[rng.Intn(8)]
		} else if rng.Intn(12) == 0 {
			c.ErrValue = true
			c.JSONVal, _ = json.Marshal(c17Payload{Code: rng.Intn(600), Message: renderStrings[rng.Intn(len(renderStrings))], Tags: []string{"a", "<b>"}[:rng.Intn(3)]})
		}
	case "xml":
		d := &xmlDoc{XMLName: xml.Name{Local: "doc"}, ID: rng.Intn(1000) - 500, Name: xmlSafe(renderStrings[rng.Intn(len(renderStrings))]), Title: xmlSafe(renderStrings[rng.Intn(len(renderStrings))])}
		for i := rng.Intn(4); i > 0; i-- {
			d.Items = append(d.Items, xmlItem{K: xmlSafe(renderStrings[rng.Intn(len(renderStrings))]), V: xmlSafe(renderStrings[rng.Intn(len(renderStrings))])})
		}
		if rng.Intn(2) == 0 {
			s := xmlSafe(renderStrings[rng.Intn(len(renderStrings))])
			d.Note = &s
		}
		c.XMLVal = d
	default:
		n := rng.Intn(40)
		b := make([]byte, n)
		for i := range b {
			b[i] = byte(rng.Intn(256))
		}
		if rng.Intn(8) == 0 {
			// leading byte sequences that tempt a renderer to be clever: byte-order marks, magic numbers, markup
			b = append([]byte([]string{"\xef\xbb\xbf", "\xff\xfe", "\xfe\xff", "\x1f\x8b\x08", "<!DOCTYPE html>", "{\"a\":", "%PDF-", "\x00\x00\xfe\xff"}[rng.Intn(8)]), b...)
		}
		if rng.Intn(3) == 0 {
			b = []byte(renderStrings[rng.Intn(len(renderStrings))])
		}
		c.Bytes = core.B(b)
	}
	if rng.Intn(12) == 0 && !c.Overlap {
		// drawn last: an earlier big document from the same Renderer
		c.LargeFirst = []int{16383, 16384, 16385, 20000, 65536, 65537, 100000, 1 << 20}[rng.Intn(8)]
	}
	return c
}

type renderObs struct {
	pan    interface{}
	status int
	ctype  string
	clen   string // Content-Length as it went out with the status ("" if none)
	body   []byte
	ran    bool
}

func renderVerdict(c *renderCase, o renderObs) string {
	if o.pan != nil {
		return fmt.Sprintf("panic: %v (the Render service must be available to every handler after the Renderer middleware)", o.pan)
	}
	if !o.ran {
		return "the rendering handler did not run"
	}
	if o.status != c.Status {
		return fmt.Sprintf("status %d, given %d", o.status, c.Status)
	}
	cs := c.Charset
	if cs == "" {
		cs = "utf-8"
	}
	wantCT := map[string]string{"json": "application/json; charset=" + cs, "xml": "text/xml; charset=" + cs, "binary": "application/octet-stream", "text": "text/plain; charset=" + cs}[c.Kind]
	if o.ctype != wantCT {
		return fmt.Sprintf("Content-Type %q, want %q", o.ctype, wantCT)
	}
	if o.clen != "" && !c.Head && o.clen != fmt.Sprint(len(o.body)) {
		return fmt.Sprintf("Content-Length %q went out with the status, the body that followed has %d bytes (a connection cuts or refuses such a response)", o.clen, len(o.body))
	}
	if c.Head {
		if len(o.body) != 0 {
			return fmt.Sprintf("HEAD request: a body was sent: %q", clip(string(o.body)))
		}
		return ""
	}
	if c.Counting && (c.Kind == "json" || c.Kind == "xml") {
		want := `{"serial":1}`
		if c.Kind == "xml" {
			want = "<serial>1</serial>"
		}
		if strings.Join(strings.Fields(string(o.body)), "") != want { // indentation aside
			return fmt.Sprintf("the value's marshaler counts its calls; the body %q is not its first encoding %q", clip(string(o.body)), want)
		}
		return ""
	}
	switch c.Kind {
	case "binary", "text":
		if string(o.body) != string(c.Bytes) {
			return fmt.Sprintf("body %q is not the given value %q verbatim", clip(string(o.body)), clip(string(c.Bytes)))
		}
	case "json":
		if c.JSONGo != "" {
			var want bytes.Buffer
			enc := json.NewEncoder(&want)
			if c.JSONIndent != "" {
				enc.SetIndent("", c.JSONIndent)
			}
			_ = enc.Encode(c17GoValue(c.JSONGo))
			if !bytes.Equal(want.Bytes(), o.body) {
				return fmt.Sprintf("JSON body %q is not what the standard encoder writes for the given value (%s): %q", clip(string(o.body)), c.JSONGo, clip(want.String()))
			}
			return ""
		}
		var in, out interface{}
		if err := json.Unmarshal(c.JSONVal, &in); err != nil {
			return ""
		}
		if c.ErrValue {
			var pl c17Payload
			_ = json.Unmarshal(c.JSONVal, &pl)
			var buf bytes.Buffer
			enc := json.NewEncoder(&buf)
			if c.JSONIndent != "" {
				enc.SetIndent("", c.JSONIndent)
			}
			_ = enc.Encode(pl)
			if !bytes.Equal(buf.Bytes(), o.body) {
				return fmt.Sprintf("JSON body %q is not the encoding of the given value %q (a struct that also implements error)", clip(string(o.body)), clip(buf.String()))
			}
			return ""
		}
		if err := json.Unmarshal(o.body, &out); err != nil {
			return fmt.Sprintf("body does not decode as JSON: %v (%q)", err, clip(string(o.body)))
		}
		if !reflect.DeepEqual(in, out) {
			return fmt.Sprintf("JSON body decodes to %v, given %v", out, in)
		}
		var want bytes.Buffer
		enc := json.NewEncoder(&want)
		if c.JSONIndent != "" {
			enc.SetIndent("", c.JSONIndent)
		}
		_ = enc.Encode(in)
		if !bytes.Equal(want.Bytes(), o.body) {
			return fmt.Sprintf("JSON body is not the standard encoding with indent %q:\n got  %q\n want %q", c.JSONIndent, clip(string(o.body)), clip(want.String()))
		}
	case "xml":
		var out xmlDoc
		if err := xml.Unmarshal(o.body, &out); err != nil {
			return fmt.Sprintf("body does not decode as XML: %v (%q)", err, clip(string(o.body)))
		}
		if !reflect.DeepEqual(&out, c.XMLVal) {
			ob, _ := json.Marshal(out)
			ib, _ := json.Marshal(c.XMLVal)
			return fmt.Sprintf("XML body decodes to %s, given %s", ob, ib)
		}
		var want []byte
		if c.XMLIndent != "" {
			want, _ = xml.MarshalIndent(c.XMLVal, "", c.XMLIndent)
		} else {
			want, _ = xml.Marshal(c.XMLVal)
		}
		if !bytes.Equal(want, o.body) {
			return fmt.Sprintf("XML body is not the standard encoding with indent %q:\n got  %q\n want %q", c.XMLIndent, clip(string(o.body)), clip(string(want)))
		}
	}
	return ""
}

// c17Unencodable: rows first, then a member no encoder accepts.
type c17Unencodable struct {
	Rows []xmlItem      `xml:"row" json:"rows"`
	Bad  map[string]int `xml:"bad" json:"-"`
	Ch   chan int       `xml:"-" json:"ch"`
}

// c17Serial is encoded through its own marshaler methods, which count their calls: a value is encoded once.
type c17Serial struct{ n *int }

func (v c17Serial) MarshalJSON() ([]byte, error) {
	*v.n++
	return []byte(fmt.Sprintf(`{"serial":%d}`, *v.n)), nil
}

func (v c17Serial) MarshalXML(e *xml.Encoder, start xml.StartElement) error {
	*v.n++
	start.Name.Local = "serial"
	return e.EncodeElement(*v.n, start)
}

// c17Spacey's MarshalJSON returns valid JSON with white space the encoder compacts
type c17Spacey struct{}

func (c17Spacey) MarshalJSON() ([]byte, error) { return []byte(`{ "k" : [ 1 , 2 ] , "h": "<>" }`), nil }

type c17Holder struct {
	Tags []string          `json:"tags"`
	Meta map[string]string `json:"meta"`
}

func c17GoValue(kind string) interface{} {
	switch kind {
	case "nil-slice":
		return []string(nil)
	case "nil-map":
		return map[string]int(nil)
	case "nil-ptr":
		return (*c17Payload)(nil)
	case "empty-slice":
		return []string{}
	case "nil-in-struct":
		return c17Holder{}
	case "raw-message": // valid JSON with insignificant white space and characters the encoder escapes
		return json.RawMessage(`{"a": [1, 2,  "<b>&"],   "c":{ "d":null}}`)
	case "raw-message-ptr":
		m := json.RawMessage(`[ 1,2 , {"x": "</script>"} ]`)
		return &m
	case "marshaler-with-spaces":
		return c17Spacey{}
	}
	return nil
}

func judgeRender(w *core.W, c *renderCase) {
	w.Eval()
	if c.XMLVal != nil {
		c.XMLVal.XMLName = xml.Name{Local: "doc"}
	}
	if c.Big > 0 && c.JSONGo == "" && !c.ErrValue && !c.Counting {
		switch c.Kind {
		case "xml":
			if len(c.XMLVal.Title) < c.Big {
				c.XMLVal.Title += strings.Repeat("t", c.Big-len(c.XMLVal.Title))
			}
		case "json":
			if len(c.JSONVal) < c.Big {
				// a document with many members, so that indentation makes it longer
				rows := make([]string, 1+c.Big/104)
				for i := range rows {
					rows[i] = strings.Repeat("j", 100)
				}
				c.JSONVal, _ = json.Marshal(map[string]interface{}{"rows": rows, "n": len(rows)})
			}
		default:
			if len(c.Bytes) < c.Big {
				c.Bytes = core.B(string(c.Bytes) + strings.Repeat("b", c.Big-len(c.Bytes)))
			}
		}
		w.Count("large-values")
	}
	var o renderObs
	f := flamego.NewWithLogger(io.Discard)
	if c.EnvMade != "" || c.EnvServed != "" {
		prev := flamego.Env()
		defer flamego.SetEnv(prev)
		w.Count("environment-varied")
	}
	if c.EnvMade != "" {
		flamego.SetEnv(flamego.EnvType(c.EnvMade))
	}
	var rnd flamego.Handler
	if c.Spread {
		sl := []flamego.RenderOptions{{Charset: c.Charset, JSONIndent: c.JSONIndent, XMLIndent: c.XMLIndent}}
		rnd = flamego.Renderer(sl...)
		sl[0] = flamego.RenderOptions{Charset: "scribbled", JSONIndent: "@@", XMLIndent: "@@"}
		w.Count("options-slice-overwritten-after-creation")
	} else {
		rnd = flamego.Renderer(flamego.RenderOptions{Charset: c.Charset, JSONIndent: c.JSONIndent, XMLIndent: c.XMLIndent})
	}
	if c.EnvServed != "" {
		flamego.SetEnv(flamego.EnvType(c.EnvServed))
	}
	var jsonIn interface{}
	if c.Kind == "json" {
		_ = json.Unmarshal(c.JSONVal, &jsonIn)
		if c.ErrValue {
			var pl c17Payload
			_ = json.Unmarshal(c.JSONVal, &pl)
			jsonIn = pl
			w.Count("json-value-implementing-error")
		}
	}
	// Overlap: the judged request (X-Who: a) parks after it has received its Render until a second
	// request (X-Who: b) has passed the Renderer middleware and rendered its own plain text.
	gotRender := make(chan struct{})
	otherDone := make(chan struct{})
	if c.Kind == "json" && c.JSONGo != "" {
		jsonIn = c17GoValue(c.JSONGo)
		w.Count("json-go-value:" + c.JSONGo)
	}
	final := func(r flamego.Render, req *http.Request, ctx flamego.Context) {
		if req.Header.Get("X-Prime") == "1" {
			// an earlier response of the same kind; afterwards its handler edits ITS OWN header value in place
			switch c.Kind {
			case "json":
				r.JSON(200, 1)
			case "xml":
				r.XML(200, xmlItem{K: "k", V: "v"})
			case "binary":
				r.Binary(200, []byte("p"))
			case "text":
				r.PlainText(200, "p")
			}
			if ct := ctx.ResponseWriter().Header()["Content-Type"]; len(ct) > 0 {
				ct[0] += "; profile=edited-by-an-earlier-response"
			}
			return
		}
		if req.Header.Get("X-Large-First") != "" {
			// an earlier request answered by the same Renderer with a big document of either kind (16 KiB .. 1 MiB)
			rows := make([]xmlItem, 0, 256)
			for i := 0; len(rows)*64 < c.LargeFirst; i++ {
				rows = append(rows, xmlItem{K: fmt.Sprintf("big-row-%06d", i), V: "FROM-AN-EARLIER-BIG-DOCUMENT-0123456789abcdef"})
			}
			if req.Header.Get("X-Large-First") == "json" {
				r.JSON(200, rows)
			} else {
				r.XML(200, struct {
					XMLName struct{} `xml:"big"`
					Rows    []xmlItem
				}{Rows: rows})
			}
			return
		}
		if c.Overlap && req.Header.Get("X-Who") == "b" {
			r.PlainText(299, "other-request")
			return
		}
		if c.Overlap {
			close(gotRender)
			<-otherDone
		}
		o.ran = true
		if c.CtxDone {
			cctx, cancel := gocontext.WithCancel(req.Context())
			ctx.Request().Request = req.WithContext(cctx)
			cancel()
		}
		if c.Counting && (c.Kind == "json" || c.Kind == "xml") {
			n := 0
			if c.Kind == "json" {
				r.JSON(c.Status, c17Serial{&n})
			} else {
				r.XML(c.Status, c17Serial{&n})
			}
			return
		}
		switch c.Kind {
		case "json":
			r.JSON(c.Status, jsonIn)
		case "xml":
			r.XML(c.Status, c.XMLVal)
		case "binary":
			r.Binary(c.Status, []byte(c.Bytes))
		case "text":
			r.PlainText(c.Status, string(c.Bytes))
		}
	}
	var hs []flamego.Handler
	if c.Where == "route" {
		hs = append(hs, rnd)
	}
	if c.PresetCT {
		hs = append(hs, func(ctx flamego.Context) {
			ctx.ResponseWriter().Header().Set("Content-Type", "text/html; charset=preset")
		})
	}
	for i := 0; i < c.Depth; i++ {
		if i%2 == 0 {
			hs = append(hs, func(ctx flamego.Context) { ctx.Next() })
		} else {
			hs = append(hs, func(_ flamego.Render) {}) // an intermediate handler may take the service as well
		}
	}
	hs = append(hs, final)
	if c.Where != "app" && c.Depth%2 == 0 {
		// an application-wide Renderer with other options runs first in the same chain; the Renderer nearer to
		// the handler is the one that is mapped last, so its options apply
		f.Use(flamego.Renderer(flamego.RenderOptions{Charset: "outer-charset", JSONIndent: "\t\t\t", XMLIndent: "\t\t\t"}))
		w.Count("nested-renderers")
	}
	post, meth := f.Post, "POST"
	if c.Head {
		post, meth = f.Head, "HEAD"
		w.Count("head-requests")
	} else if c.Get {
		post, meth = f.Get, "GET"
		w.Count("get-requests")
	}
	switch c.Where {
	case "app":
		f.Use(rnd)
		post("/r", hs...)
	case "group":
		f.Group("/g", func() { post("/r", hs...) }, rnd)
	default:
		post("/r", hs...)
	}
	// another Renderer with other options, created later for another part of the application (or another
	// instance): each Renderer keeps its own options
	decoy := flamego.NewWithLogger(io.Discard)
	decoy.Use(flamego.Renderer(flamego.RenderOptions{Charset: "decoy-charset", JSONIndent: "\t\t", XMLIndent: "\t\t"}))
	f.Group("/decoy", func() { f.Get("/x", func(r flamego.Render) { r.PlainText(200, "decoy") }) }, flamego.Renderer(flamego.RenderOptions{Charset: "decoy2"}))
	target := "/r"
	if c.Where == "group" {
		target = "/g/r"
	}
	spy := &retSpy{h: http.Header{}}
	var other *retSpy
	if c.Overlap {
		other = &retSpy{h: http.Header{}}
		go func() {
			defer close(otherDone)
			defer func() { _ = recover() }()
			<-gotRender
			f.ServeHTTP(other, &http.Request{Method: meth, URL: &url.URL{Path: target}, Header: http.Header{"X-Who": {"b"}}})
		}()
	}
	func() {
		defer func() {
			o.pan = recover()
			if c.Overlap {
				select {
				case <-gotRender:
				default:
					close(gotRender) // the handler never ran: release the helper
				}
				<-otherDone
			}
		}()
		if c.FailFirst != "" {
			bad := c17Unencodable{Bad: map[string]int{"x": 1}, Ch: make(chan int)}
			for i := 0; i < 300; i++ {
				bad.Rows = append(bad.Rows, xmlItem{K: fmt.Sprintf("leftover-row-%d", i), V: "LEFTOVER-FROM-A-FAILED-RENDER"})
			}
			g := flamego.NewWithLogger(io.Discard)
			g.Use(flamego.Renderer())
			g.Get("/bad", func(r flamego.Render) {
				if c.FailFirst == "json" {
					r.JSON(200, bad)
				} else {
					r.XML(200, bad)
				}
			})
			func() {
				defer func() { _ = recover() }()
				g.ServeHTTP(&retSpy{h: http.Header{}}, &http.Request{Method: "GET", URL: &url.URL{Path: "/bad"}, Header: http.Header{}})
			}()
			w.Count("earlier-render-failed:" + c.FailFirst)
		}
		if c.LargeFirst > 0 {
			kind := []string{"json", "xml"}[c.LargeFirst%2]
			big := &retSpy{h: http.Header{}}
			f.ServeHTTP(big, &http.Request{Method: "GET", URL: &url.URL{Path: target}, Header: http.Header{"X-Large-First": {kind}}})
			if len(big.body) >= c.LargeFirst/2 {
				w.Count("earlier-big-document-from-the-same-renderer")
			}
		}
		if c.EditCT {
			f.ServeHTTP(&retSpy{h: http.Header{}}, &http.Request{Method: meth, URL: &url.URL{Path: target}, Header: http.Header{"X-Prime": {"1"}}})
			w.Count("earlier-response-edited-its-content-type-in-place")
		}
		mainHdr := http.Header{"X-Who": {"a"}}
		for _, h := range c.ReqHdr {
			mainHdr.Add(h[0], h[1])
		}
		if len(c.ReqHdr) > 0 {
			w.Count("requests-with-range-conditional-or-negotiation-headers")
		}
		f.ServeHTTP(spy, &http.Request{Method: meth, URL: &url.URL{Path: target, RawQuery: c.Query}, Header: mainHdr})
	}()
	o.status, o.body, o.ctype = spy.status, spy.body, strings.Join(spy.h.Values("Content-Type"), " | ")
	o.clen = strings.Join(spy.h.Values("Content-Length"), " | ")
	if c.Overlap && o.pan == nil {
		w.Count("overlapping-requests")
		if other.status != 299 || string(other.body) != "other-request" {
			w.Violate("render", c, fmt.Sprintf("the overlapping second request received status %d body %q instead of its own 299 \"other-request\" (rendered output crossed between requests)", other.status, clip(string(other.body))))
			return
		}
	}
	if msg := renderVerdict(c, o); msg != "" {
		w.Violate("render", c, msg)
		return
	}
	shape := "n/a"
	switch c.Kind {
	case "json":
		switch jsonIn.(type) {
		case map[string]interface{}:
			shape = "object"
		case []interface{}:
			shape = "array"
		case string:
			shape = "string"
		case nil:
			shape = "null"
		default:
			shape = "scalar"
		}
	case "xml":
		shape = fmt.Sprintf("items=%d,note=%v", len(c.XMLVal.Items), c.XMLVal.Note != nil)
	default:
		shape = "bytes"
		if len(c.Bytes) == 0 {
			shape = "empty"
		}
	}
	w.Count("kind:" + c.Kind)
	w.Count("where:" + c.Where)
	if c.Charset != "" {
		w.Count("custom-charset")
	}
	if c.PresetCT {
		w.Count("content-type-preset")
	}
	if (c.Kind == "json" && c.JSONIndent != "") || (c.Kind == "xml" && c.XMLIndent != "") {
		w.Count("indented:" + c.Kind)
	}
	w.NonTrivial(core.Hash64(c.Kind, c.Charset, c.JSONIndent, c.XMLIndent, c.Where, fmt.Sprint(c.Depth, c.Status), shape, string(c.JSONVal), string(c.Bytes), fmt.Sprint(c.XMLVal)), func() interface{} {
		return map[string]interface{}{"case": c, "content_type": o.ctype, "body": core.B(o.body)}
	})
	w.Sample(func() interface{} { return map[string]interface{}{"case": c, "content_type": o.ctype} })
}

func runC17(r *core.Run) {
	r.Rule("one Render call per case: JSON (random trees of objects/arrays/strings incl. <>& and control characters/numbers/bools/null, depth<=3), XML (struct with attributes, nested elements, chardata, optional pointer field; XML-valid characters), Binary (arbitrary bytes), PlainText; statuses 100-999; Charset default/custom, JSON/XML indent off/on; Renderer installed as application middleware, group handler or route handler with 0-2 handlers in between; 1/5 of the cases with a second request overlapping between receiving Render and rendering; 1/6 with the options passed as a slice that the caller overwrites afterwards; 600/12000 serial cases with the process environment set to production/development/test while the Renderer is created and while the request is served. Oracle: recorded status and Content-Type; body decoded back with encoding/json / encoding/xml deep-equals the input and equals the standard encoder's output for the configured indent; bytes and text verbatim. non-trivial = distinct (method, options, placement, status, value)")
	r.Assume("values are encodable (valid UTF-8 strings for JSON, XML-valid characters for XML); request method POST")
	c17Canaries(r)
	n := r.N(100000, 6000000)
	r.Parallel("render", n, func(w *core.W, rng *rand.Rand, i int) {
		c := genRenderCase(rng)
		w.Begin("render", c)
		judgeRender(w, c)
	})
	r.Parallel("status-sweep", 900, func(w *core.W, rng *rand.Rand, i int) {
		for _, kind := range []string{"json", "xml", "binary", "text"} {
			c := genRenderCase(rng)
			for c.Kind != kind {
				c = genRenderCase(rng)
			}
			c.Status, c.Overlap = 100+i, false
			if i%7 == 0 {
				c.Bytes = "" // empty body with a non-200 status
			}
			w.Begin("render", c)
			w.Count("status-sweep")
			judgeRender(w, c)
		}
	})
	r.GateCounter("status-sweep", 3600)
	// the process environment (which only Recovery is documented to read) while the Renderer is created and
	// while the request is served: serial cases, the environment is process-global
	ws := r.Serial()
	envs := []string{"production", "development", "test", ""}
	for i := 0; i < r.N(600, 12000); i++ {
		rng := r.Rand("render-env", i)
		c := genRenderCase(rng)
		c.Overlap = false
		c.EnvMade, c.EnvServed = envs[rng.Intn(4)], envs[rng.Intn(4)]
		if i%2 == 0 {
			c.JSONIndent, c.XMLIndent = "  ", "\t"
		}
		ws.Begin("render", c)
		judgeRender(ws, c)
	}
	ws.Done()
	ws.Merge()
	r.GateCounter("environment-varied", 300)
	r.GateCounter("earlier-big-document-from-the-same-renderer", 1000)
	for _, k := range []string{"kind:json", "kind:xml", "kind:binary", "kind:text", "where:app", "where:group", "where:route", "custom-charset", "indented:json", "indented:xml", "overlapping-requests", "content-type-preset", "json-value-implementing-error", "nested-renderers", "options-slice-overwritten-after-creation", "earlier-response-edited-its-content-type-in-place", "json-go-value:nil-slice", "earlier-render-failed:xml-late", "earlier-render-failed:json"} {
		min := int64(500)
		if k == "json-go-value:nil-slice" {
			min = 200 // expected ~540 per quick run (one of eight Go-value kinds); seed 11 drew 487
		}
		r.GateCounter(k, min)
	}
	r.Gate("distinct_nontrivial", r.NonTrivialCount(), 5000)
}

func c17Canaries(r *core.Run) {
	c := &renderCase{Kind: "json", Status: 201, Charset: "gbk", JSONIndent: "  ", JSONVal: json.RawMessage(`{"a":[1,"<x>"]}`)}
	var in interface{}
	_ = json.Unmarshal(c.JSONVal, &in)
	var buf bytes.Buffer
	enc := json.NewEncoder(&buf)
	enc.SetIndent("", "  ")
	_ = enc.Encode(in)
	good := renderObs{ran: true, status: 201, ctype: "application/json; charset=gbk", body: buf.Bytes()}
	r.Canary("faithful passes", renderVerdict(c, good) == "")
	o := good
	o.status = 200
	r.Canary("status fixed to 200", renderVerdict(c, o) != "")
	o = good
	o.ctype = "application/json; charset=utf-8"
	r.Canary("charset dropped", renderVerdict(c, o) != "")
	o = good
	o.body, _ = json.Marshal(in)
	o.body = append(o.body, '\n')
	r.Canary("indent ignored", renderVerdict(c, o) != "")
	t := &renderCase{Kind: "text", Status: 200, Bytes: "hi"}
	r.Canary("PlainText sent as octet-stream", renderVerdict(t, renderObs{ran: true, status: 200, ctype: "application/octet-stream", body: []byte("hi")}) != "")
	r.Canary("Render unavailable", renderVerdict(t, renderObs{pan: "value not found for type flamego.Render"}) != "")
}
