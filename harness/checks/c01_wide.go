package checks

import (
	"encoding/json"
	"fmt"
	"math/rand"
	"strconv"

	"github.com/flamego/flamego/internal/route"
	"github.com/flamego/flamego/verifharness/core"
)

// wideCase is the wide-fan-out workload of C01: N routes whose texts differ in
// exactly one segment, all hanging off one tree position. The generated route
// sets of the main workload never have more than a handful of siblings, so an
// identity of tree positions that is only *almost* injective (a truncated
// digest, a prefix, a length-capped key) cannot show there; here every sibling
// is a separate route that must be found by, and only by, its own path.
type wideCase struct {
	Shape    string `json:"shape"` // "subtree": /<name>/{id}   "leaf": /p/<name>   "mixed": alternating, plus a deeper level
	N        int    `json:"n"`
	NameSeed uint64 `json:"name_seed"`
}

func wideName(seed uint64, i int) string {
	x := seed + uint64(i)*0x9E3779B97F4A7C15
	x ^= x >> 30
	x *= 0xBF58476D1CE4E5B9
	x ^= x >> 27
	x *= 0x94D049BB133111EB
	x ^= x >> 31
	switch i % 6 {
	case 0:
		return "k" + strconv.Itoa(i)
	case 1:
		return "keys" + strconv.Itoa(i)
	case 2:
		return "v" + strconv.Itoa(i)
	case 3:
		return strconv.FormatUint(x, 36) + "-" + strconv.Itoa(i)
	case 4:
		return strconv.FormatUint(x%1679616, 36) + "." + strconv.Itoa(i)
	default:
		return "item_" + strconv.FormatUint(x%46656, 36) + "_" + strconv.Itoa(i)
	}
}

func (c *wideCase) routeAndPath(i int) (rt, path, want string) {
	n := wideName(c.NameSeed, i)
	shape := c.Shape
	if shape == "mixed" {
		shape = []string{"subtree", "leaf", "deep"}[i%3]
	}
	switch shape {
	case "subtree":
		return "/" + n + "/{id}", "/" + n + "/42", "42"
	case "leaf":
		return "/p/" + n, "/p/" + n, ""
	default:
		return "/q/{id}/" + n + "/x", "/q/7/" + n + "/x", "7"
	}
}

func judgeWideCase(w *core.W, c *wideCase, parser *route.Parser) {
	if parser == nil {
		parser = parserOf(w)
	}
	t := route.NewTree()
	leaves := make([]route.Leaf, c.N)
	for i := 0; i < c.N; i++ {
		if i%400 == 0 {
			w.Begin("wide", c) // heartbeat: every batch is its own bounded piece of work
		}
		txt, _, _ := c.routeAndPath(i)
		rt, err, pan := safeParse(parser, txt)
		if err != nil || pan != nil {
			w.Violate("wide-route-refused", c, fmt.Sprintf("route %d %q of the wide set does not parse: %v %v", i, txt, err, pan))
			return
		}
		leaf, err, pan := safeAdd(t, rt, nil)
		if err != nil || pan != nil {
			w.Violate("wide-route-refused", c, fmt.Sprintf("route %d %q differs from every earlier route in a static segment, yet registration refuses it: %v %v", i, txt, err, pan))
			return
		}
		leaves[i] = leaf
		if i == c.N/2 {
			// requests are served while the application is still being assembled: whatever the tree derives from
			// what it holds at that moment must not outlive the next registration
			for j := 0; j <= i; j += 97 {
				_, path, _ := c.routeAndPath(j)
				if lf, _, ok, _ := safeMatch(t, path, nil); !ok || lf != leaves[j] {
					w.Violate("wide-not-found", c, fmt.Sprintf("half-way: route %d is registered, its own instance %q is not dispatched to it", j, path))
					return
				}
			}
		}
	}
	w.CountN("wide-routes-registered", c.N)
	if msg := treeInvariants(t); msg != "" {
		w.Violate("wide-tree-invariant", c, msg)
		return
	}
	bad := 0
	for i := 0; i < c.N && bad < 3; i++ {
		if i%400 == 0 {
			w.Begin("wide", c)
		}
		txt, path, want := c.routeAndPath(i)
		leaf, params, ok, pan := safeMatch(t, path, nil)
		w.Eval()
		switch {
		case pan != nil:
			w.Violate("wide-panic", c, fmt.Sprintf("Match(%q) panics: %v", path, pan))
			bad++
		case !ok:
			w.Violate("wide-not-found", c, fmt.Sprintf("route %d %q is registered and its own instance %q is the only route admitting it, yet nothing is dispatched", i, txt, path))
			bad++
		case leaf != leaves[i]:
			w.Violate("wide-wrong-route", c, fmt.Sprintf("path %q is admitted only by route %d %q but is dispatched to %q", path, i, txt, leaf.Route()))
			bad++
		case want != "" && params["id"] != want:
			w.Violate("wide-wrong-param", c, fmt.Sprintf("path %q under %q: id=%q, want %q", path, txt, params["id"], want))
			bad++
		}
	}
	w.CountN("wide-dispatches-compared", c.N)
	// paths of names that were never registered must find nothing
	for j := 0; j < 200; j++ {
		_, path, _ := (&wideCase{Shape: c.Shape, N: c.N, NameSeed: c.NameSeed ^ 0x5555}).routeAndPath(c.N + 1 + j*6 + 3)
		if _, _, ok, _ := safeMatch(t, path, nil); ok {
			w.Violate("wide-phantom", c, fmt.Sprintf("path %q names no registered sibling but is dispatched", path))
			break
		}
		w.Count("wide-absent-agree")
	}
}

func runWide(r *core.Run) {
	n, cases := 24000, 2
	if r.Thorough() {
		n, cases = 100000, 6
	}
	shapes := []string{"subtree", "leaf", "mixed"}
	r.Parallel("wide", cases, func(w *core.W, rng *rand.Rand, i int) {
		c := &wideCase{Shape: shapes[i%len(shapes)], N: n, NameSeed: rng.Uint64()}
		w.Begin("wide", c)
		judgeWideCase(w, c, nil)
	})
	r.GateCounter("wide-dispatches-compared", int64(n)*int64(cases))
}

func replayWide(w *core.W, raw json.RawMessage) {
	var c wideCase
	if err := json.Unmarshal(raw, &c); err != nil {
		w.R.Inconclusive("replay case does not decode: " + err.Error())
		return
	}
	w.Begin("wide", &c)
	judgeWideCase(w, &c, newImplParser())
}
