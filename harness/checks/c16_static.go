package checks

import (
	"encoding/base64"
	"encoding/json"
	"errors"
	"fmt"
	"io"
	"io/fs"
	"math/rand"
	"net/http"
	"net/url"
	"os"
	"path"
	"path/filepath"
	"strings"
	"sync"
	"sync/atomic"
	"syscall"
	"time"

	"github.com/flamego/flamego"
	"github.com/flamego/flamego/verifharness/core"
)

// staticCase: one option set and one request against the fixture tree (C16).
type staticCase struct {
	Prefix     string `json:"prefix"`
	Index      string `json:"index,omitempty"`
	ETag       bool   `json:"etag,omitempty"`
	Headers    bool   `json:"expires_cachecontrol,omitempty"`
	CustomFS   bool   `json:"custom_filesystem,omitempty"` // FileSystem option instead of Directory
	Fault      string `json:"fault,omitempty"`             // "" | open | stat | index-open | index-stat | stat-oversize (Stat reports 32 bytes more than the file holds: no failure, the file is served as it is)
	Method     string `json:"method"`
	Path       core.B `json:"path"`
	INM        string `json:"if_none_match,omitempty"` // "" | match | other | formula (the tag the middleware's own formula yields for whatever the request path denotes - a file: its real tag; a directory: a tag no response ever carried, which must not match anything)
	Logging    bool   `json:"enable_logging,omitempty"`
	Query      string `json:"raw_query,omitempty"`                                // the request also carries a query string (irrelevant to what is served or where a directory is redirected to)
	IOFS       bool   `json:"filesystem_is_an_io_fs,omitempty"`                   // FileSystem is http.FS(os.DirFS(dir)) instead of http.Dir(dir): names with empty, "." or ".." elements are not valid there and cannot be opened
	ReqHdr     string `json:"negotiation_header,omitempty"`                       // one "Name: value" line of content negotiation the client sends (Accept-Encoding, Accept, Accept-Language ...): which file is served does not depend on it
	DirName    string `json:"directory_spelled,omitempty"`                        // Directory is this name under the fixture root (another name of the served tree, relative to the working directory for even request counts): a directory name is a name, whatever characters it contains
	DefaultDir bool   `json:"directory_option_unset,omitempty"`                   // neither Directory nor FileSystem given: the documented default "public" (relative to the working directory, which is the fixture root) is served
	Spread     bool   `json:"options_passed_as_slice_then_overwritten,omitempty"` // Static(slice...) and the caller reuses the slice afterwards: the middleware keeps the options it was created with
}

func init() {
	register(&Check{ID: "C16", Run: runC16, Replay: func(w *core.W, kind string, raw json.RawMessage) {
		if kind == "burst" {
			var bc burstCase
			if err := json.Unmarshal(raw, &bc); err != nil {
				w.R.Inconclusive("replay case does not decode: " + err.Error())
				return
			}
			fx := newFixture()
			defer fx.remove()
			w.Begin("burst", &bc)
			judgeBurst(w, fx, &bc)
			return
		}
		if kind == "volatile" {
			var vc volatileCase
			if err := json.Unmarshal(raw, &vc); err != nil {
				w.R.Inconclusive("replay case does not decode: " + err.Error())
				return
			}
			fx := newFixture()
			defer fx.remove()
			w.Begin("volatile", &vc)
			judgeVolatile(w, fx, &vc)
			return
		}
		var c staticCase
		if err := json.Unmarshal(raw, &c); err != nil {
			w.R.Inconclusive("replay case does not decode: " + err.Error())
			return
		}
		fx := newFixture()
		defer fx.remove()
		w.Begin("static", &c)
		judgeStatic(w, fx, &c, nil)
	}})
}

// ---- fixture: every file, inside and outside, has unique content ----------------

type fixture struct {
	cwd   string // working directory to return to
	root  string
	pub   string
	files map[string]string // absolute path -> content
}

var fixtureInside = []string{"pub/x", "pub/s/one", "pub/a.txt", "pub/dir/index.html", "pub/dir/b", "pub/index.html", "pub/sp ace", "pub/..x", "pub/idx2/home.htm", "pub/deep/d2/index.html", "pub/static/a.txt", "pub/s/t/u.txt",
	// directories that hold no index file, only files whose names resemble one
	"pub/legacy/index.htm", "pub/legacy/index.html.bak", "pub/legacy/default.html", "pub/legacy/INDEX.HTML", "pub/legacy/index", "pub/legacy/index.php", "pub/legacy/_index.html", "pub/diridx/index.htm", "pub/diridx/default.htm",
	// siblings whose names are a served name plus a suffix (pre-compressed copies, editor backups): files of their own;
	// nobody asked for them. app.js itself does not exist, docs is a directory without index
	"pub/a.txt.gz", "pub/a.txt.br", "pub/a.txt~", "pub/app.js.gz", "pub/app.js.br", "pub/docs.gz", "pub/docs/readme", "pub/dir.gz", "pub/index.html.gz", "pub/dir/index.html.gz", "pub/dir/b.gz", "pub/noidx.gz"}
var fixtureOutside = []string{"secret.txt", "pubx/leak", "pub2/a.txt", "index.html", "a.txt"}

// c16DirNames: further names of the served tree. Nothing in a directory name is a variable, a pattern or an escape.
var c16DirNames = []string{"$assets", "${HOME}", "$PWD", "~", "pub dir", "pub%41", "pub#1", "pub*", "pub?x", "%s", "{pub}", "pub;x", "$", "pub\\x"}

func newFixture() *fixture {
	root, err := os.MkdirTemp("", "verif-c16-")
	if err != nil {
		panic(err)
	}
	fx := &fixture{root: root, pub: filepath.Join(root, "pub"), files: map[string]string{}}
	put := func(rel, tag string) {
		p := filepath.Join(root, rel)
		_ = os.MkdirAll(filepath.Dir(p), 0o755)
		c := fmt.Sprintf("%s<%s>#%x", tag, rel, core.Hash64(rel))
		if err := os.WriteFile(p, []byte(c), 0o644); err != nil {
			panic(err)
		}
		fx.files[p] = c
	}
	for _, f := range fixtureInside {
		put(f, "INSIDE")
	}
	// boundary contents: an empty file and a large one
	empty := filepath.Join(fx.pub, "empty.txt")
	_ = os.WriteFile(empty, nil, 0o644)
	fx.files[empty] = ""
	big := filepath.Join(fx.pub, "big.bin")
	bigContent := strings.Repeat("INSIDE<pub/big.bin>0123456789abcdef", 30000)
	_ = os.WriteFile(big, []byte(bigContent), 0o644)
	fx.files[big] = bigContent
	for _, f := range fixtureOutside {
		put(f, "OUTSIDE-MARKER")
	}
	_ = os.MkdirAll(filepath.Join(fx.pub, "noidx"), 0o755)
	_ = os.MkdirAll(filepath.Join(fx.pub, "diridx", "index.html"), 0o755) // the index is a directory
	// The documented default of the Directory option is "public", relative to the working directory: the
	// process works inside the fixture root, where "public" is another name of the served tree and every
	// other entry is an outside file.
	fx.cwd, _ = os.Getwd()
	if err := os.Symlink("pub", filepath.Join(root, "public")); err != nil {
		panic(err)
	}
	// every file and every directory has a modification time of its own (a directory's is years away from its files')
	_ = filepath.Walk(fx.pub, func(p string, fi os.FileInfo, err error) error {
		if err != nil {
			return nil
		}
		t := time.Date(2001, 1, 1, 0, 0, 0, 0, time.UTC).Add(time.Duration(core.Hash64("mtime", p)%300000000) * time.Second)
		if fi.IsDir() {
			t = time.Date(1985, 1, 1, 0, 0, 0, 0, time.UTC).Add(time.Duration(core.Hash64("mtime", p)%100000000) * time.Second)
		}
		defer func() { _ = os.Chtimes(p, t, t) }() // after the walk has left it
		return nil
	})
	for _, n := range c16DirNames {
		if err := os.Symlink("pub", filepath.Join(root, n)); err != nil {
			panic(err)
		}
	}
	if err := os.Chdir(root); err != nil {
		panic(err)
	}
	return fx
}

func (fx *fixture) remove() {
	if fx.cwd != "" {
		_ = os.Chdir(fx.cwd)
	}
	_ = os.RemoveAll(fx.root)
}

// faultyFS injects Open/Stat failures.
type faultyFS struct {
	inner http.FileSystem
	mode  string
	index string
}

type statFailFile struct{ http.File }

func (statFailFile) Stat() (fs.FileInfo, error) { return nil, injectedErr("stat", "stat") }

// injectedErr: the failure a file system reports - a plain error or one of those an operating system gives
// (permission denied, too many open files, not found, a timeout), chosen by the name. Whatever it is, Static cannot
// serve the file and says nothing.
func injectedErr(op, name string) error {
	switch core.Hash64(op, name) % 6 {
	case 0:
		return &fs.PathError{Op: op, Path: name, Err: fs.ErrPermission}
	case 1:
		return &fs.PathError{Op: op, Path: name, Err: syscall.EMFILE}
	case 2:
		return &fs.PathError{Op: op, Path: name, Err: fs.ErrNotExist}
	case 3:
		return fs.ErrPermission
	case 4:
		return os.ErrDeadlineExceeded
	}
	return errors.New("injected " + op + " failure")
}

// oversizeFile reports a size larger than what the file holds (as files of sysfs/procfs do, and as any file does
// that is truncated between Stat and read): what is sent is still what the file holds.
type oversizeFile struct{ http.File }
type oversizeInfo struct{ fs.FileInfo }

func (i oversizeInfo) Size() int64 { return i.FileInfo.Size() + 32 }
func (f oversizeFile) Stat() (fs.FileInfo, error) {
	fi, err := f.File.Stat()
	if err != nil || fi.IsDir() {
		return fi, err
	}
	return oversizeInfo{fi}, nil
}

func (f faultyFS) Open(name string) (http.File, error) {
	isIndex := isIndexName(path.Clean("/"+name), f.index) // the file the name denotes, however it is spelt
	switch f.mode {
	case "open":
		return nil, injectedErr("open", name)
	case "index-open":
		if isIndex {
			return nil, injectedErr("open", name)
		}
	}
	file, err := f.inner.Open(name)
	if err != nil {
		return nil, err
	}
	if f.mode == "stat" || (f.mode == "index-stat" && isIndex) {
		return statFailFile{file}, nil
	}
	if f.mode == "stat-oversize" {
		return oversizeFile{file}, nil
	}
	return file, nil
}

// ---- outcome function -------------------------------------------------------------

type staticOutcome struct {
	kind    string // silent | redirect | file | not-modified
	body    string
	loc     string
	exact   bool   // false: only the safety predicates are judged (odd bytes)
	denoted string // what the request path denotes in the served tree, before any index is looked up ("" if nothing)
	modtime string // kind file: the modification time of the file that is served, as a Last-Modified value
}

// isIndexName: does the cleaned, slash-rooted name denote an index file (the index option may have several elements)?
func isIndexName(cleaned, idx string) bool {
	return cleaned == "/"+idx || strings.HasSuffix(cleaned, "/"+idx)
}

func staticOracle(fx *fixture, c *staticCase) staticOutcome {
	silent := staticOutcome{kind: "silent", exact: true}
	p := string(c.Path)
	if c.Method != "GET" && c.Method != "HEAD" {
		return silent
	}
	normPrefix := ""
	if c.Prefix != "" {
		normPrefix = "/" + strings.Trim(c.Prefix, "/")
	}
	rest := p
	if normPrefix != "" {
		if !strings.HasPrefix(p, normPrefix) {
			return silent
		}
		rest = p[len(normPrefix):]
		if rest != "" && rest[0] != '/' {
			return silent
		}
	}
	idx := c.Index
	if idx == "" {
		idx = "index.html"
	}
	if c.Fault == "open" {
		return silent
	}
	odd := strings.ContainsAny(p, "\x00\\") // how http.Dir treats odd bytes is its business: safety predicates only
	if c.IOFS && (c.CustomFS || c.Fault != "") {
		// an io/fs file system opens valid names only: what is left after dropping trailing slashes must be "/" or a
		// slash-rooted name without empty, "." or ".." elements
		name := rest
		if name != "/" {
			name = strings.TrimRight(name, "/")
		}
		if name != "/" && !fs.ValidPath(strings.TrimPrefix(name, "/")) {
			return staticOutcome{kind: "silent", exact: !odd}
		}
	}
	cleaned := path.Clean("/" + rest)
	if strings.Contains(cleaned, "\x00") {
		return staticOutcome{kind: "silent", exact: !odd || true}
	}
	target := filepath.Join(fx.pub, filepath.FromSlash(cleaned))
	fi, err := os.Stat(target)
	if err != nil {
		return staticOutcome{kind: "silent", exact: !odd}
	}
	if c.Fault == "stat" {
		return silent
	}
	if (c.Fault == "index-stat" || c.Fault == "index-open") && isIndexName(cleaned, idx) {
		return silent
	}
	out := staticOutcome{exact: !odd, denoted: target}
	viaIndex := false
	if fi.IsDir() {
		cp := path.Clean(p)
		if !(strings.HasSuffix(p, "/") || strings.HasSuffix(cp, "/")) {
			out.kind, out.loc = "redirect", cp+"/"
			return out
		}
		it := filepath.Join(target, idx)
		fi2, err := os.Stat(it)
		if err != nil || fi2.IsDir() || c.Fault == "index-open" || c.Fault == "index-stat" {
			out.kind = "silent"
			return out
		}
		target, fi = it, fi2
		viaIndex = true
	}
	out.kind, out.body = "file", fx.files[target]
	out.modtime = fi.ModTime().UTC().Format(http.TimeFormat)
	if c.ETag && (c.INM == "match" || (c.INM == "formula" && !viaIndex)) {
		out.kind, out.body = "not-modified", ""
	}
	return out
}

type staticObs struct {
	pan     interface{}
	status  int
	body    string
	hdr     http.Header
	nextRan bool
}

// staticVerdict judges one observed response.
func staticVerdict(fx *fixture, c *staticCase, want staticOutcome, o staticObs) string {
	if o.pan != nil {
		return fmt.Sprintf("panic: %v", o.pan)
	}
	// universal: nothing from outside the directory, ever
	if strings.Contains(o.body, "OUTSIDE-MARKER") {
		return fmt.Sprintf("the response contains bytes of a file outside the configured directory: %q", clip(o.body))
	}
	served := o.status != 0 || o.body != ""
	if c.Method != "GET" && c.Method != "HEAD" && served {
		return fmt.Sprintf("answered a %s request (status %d)", c.Method, o.status)
	}
	if !served && !o.nextRan {
		return "wrote nothing, yet the rest of the chain did not run"
	}
	if served && o.nextRan {
		return "answered the request, yet the rest of the chain also ran"
	}
	if !served && len(o.hdr) != 0 {
		return fmt.Sprintf("stayed silent but left response headers behind: %v", o.hdr)
	}
	got := "silent"
	switch {
	case !served:
	case o.status == 302:
		got = "redirect"
	case o.status == 200:
		got = "file"
	case o.status == 304:
		got = "not-modified"
	default:
		return fmt.Sprintf("unexpected status %d", o.status)
	}
	if !want.exact {
		// odd bytes: silent, or a redirect to the same cleaned path, or bytes of an inside file
		switch got {
		case "file":
			if c.Method == "GET" && !insideContent(fx, o.body) {
				return fmt.Sprintf("body %q is not the content of a file inside the directory", clip(o.body))
			}
		case "redirect":
			if msg := redirectOK(string(c.Path), o.hdr.Get("Location")); msg != "" {
				return msg
			}
		}
		return ""
	}
	if got != want.kind {
		return fmt.Sprintf("outcome %s (status %d), expected %s", got, o.status, want.kind)
	}
	switch got {
	case "file":
		if c.Method == "GET" && o.body != want.body {
			return fmt.Sprintf("body %q is not the content of the file at the cleaned path (%q)", clip(o.body), clip(want.body))
		}
		if c.Method == "HEAD" && o.body != "" {
			return "HEAD request answered with a body"
		}
		if c.Headers && (o.hdr.Get("Expires") != "EXP" || o.hdr.Get("Cache-Control") != "CC") {
			return fmt.Sprintf("Expires/Cache-Control not set as configured: %q %q", o.hdr.Get("Expires"), o.hdr.Get("Cache-Control"))
		}
		if c.ETag && o.hdr.Get("ETag") == "" {
			return "ETag not set although configured"
		}
		if !c.ETag && o.hdr.Get("ETag") != "" {
			return "ETag set although not configured"
		}
		if lm := o.hdr.Get("Last-Modified"); lm != "" && lm != want.modtime {
			return fmt.Sprintf("Last-Modified %q is not the modification time of the file that was served (%q)", lm, want.modtime)
		}
	case "not-modified":
		if o.body != "" {
			return "304 with a body"
		}
	case "redirect":
		if msg := redirectOK(string(c.Path), o.hdr.Get("Location")); msg != "" {
			return msg
		}
		if o.hdr.Get("Location") != want.loc {
			return fmt.Sprintf("redirect to %q, expected %q", o.hdr.Get("Location"), want.loc)
		}
	}
	return ""
}

func redirectOK(reqPath, loc string) string {
	u, err := url.Parse(loc)
	if err != nil {
		return fmt.Sprintf("redirect location %q does not parse", loc)
	}
	if !strings.HasSuffix(u.Path, "/") || path.Clean(u.Path) != path.Clean(reqPath) {
		return fmt.Sprintf("redirect location %q is not the slash-terminated form of the request path %q", loc, reqPath)
	}
	return ""
}

func insideContent(fx *fixture, body string) bool {
	for p, c := range fx.files {
		if c == body && strings.HasPrefix(p, fx.pub+string(filepath.Separator)) {
			return true
		}
	}
	return false
}

var staticSegs = []string{"a.txt", "dir", "b", "noidx", "index.html", "..", "..", ".", "", "sp ace", "..x", "secret.txt", "pubx", "leak", "static", "staticfoo", "static..", "pub", "deep", "d2", "diridx", "idx2", "home.htm", "a.txt\x00", "%2e%2e", "pub2", "s", "t", "u.txt", "..\\secret.txt", "...", "a.txt/", "legacy", "index.htm", "app.js", "docs", "a.txt.gz", "readme"}
var staticPrefixes = []string{"", "static", "/static", "static/", "/static/", "/", "s/t", "//static//", ".well-known", "/.s/", "..data"}

func genStaticCase(rng *rand.Rand) *staticCase {
	c := &staticCase{
		Prefix:     staticPrefixes[rng.Intn(len(staticPrefixes))],
		Index:      []string{"", "", "home.htm", "b", "missing.html", "d2/index.html", "s/one", "dir/index.html"}[rng.Intn(8)],
		IOFS:       rng.Intn(3) == 0,
		ETag:       rng.Intn(2) == 0,
		Headers:    rng.Intn(2) == 0,
		Logging:    rng.Intn(4) == 0,
		Query:      []string{"", "", "", "x=1", "a=b&c=d", "/", "%2F..%2F"}[rng.Intn(7)],
		CustomFS:   rng.Intn(4) == 0,
		Method:     "GET",
		DefaultDir: rng.Intn(5) == 0,
		ReqHdr: []string{"", "", "", "Accept-Encoding: gzip", "Accept-Encoding: gzip, deflate, br", "Accept-Encoding: br", "Accept-Encoding: *", "Accept: text/html", "Accept: application/json", "Accept-Language: de", "TE: gzip", "Accept-Encoding: identity;q=0, gzip",
			// what a proxy in front (or a client pretending to be one) says about where the application lives: a directory is
			// redirected to its own slash-terminated form
			"X-Forwarded-Prefix: /app", "X-Forwarded-Prefix: //evil.example", "X-Forwarded-Host: evil.example", "X-Forwarded-Proto: https", "X-Original-URL: /secret.txt", "X-Rewrite-URL: /pubx/leak", "X-Script-Name: /app", "Forwarded: host=evil.example;proto=https", "X-Forwarded-Path: /app", "Referer: http://evil.example/"}[rng.Intn(22)],
		DirName: append([]string{"", "", "", ""}, c16DirNames...)[rng.Intn(4+len(c16DirNames))],
		Spread:  rng.Intn(6) == 0,
	}
	if rng.Intn(3) == 0 {
		c.Method = []string{"HEAD", "POST", "PUT", "OPTIONS", "get", "DELETE", "", "PATCH"}[rng.Intn(8)]
	}
	if rng.Intn(12) == 0 {
		c.Fault = []string{"open", "stat", "index-open", "index-stat", "stat-oversize"}[rng.Intn(5)]
	}
	if c.ETag && rng.Intn(3) == 0 {
		c.INM = []string{"match", "other", "formula"}[rng.Intn(3)]
		if c.Fault == "stat-oversize" && c.INM == "formula" {
			c.INM = "match" // the formula is computed from what Stat reports; here that is not what the disk says
		}
	}
	normPrefix := ""
	if c.Prefix != "" {
		normPrefix = "/" + strings.Trim(c.Prefix, "/")
	}
	var sb strings.Builder
	if rng.Intn(4) > 0 && normPrefix != "" {
		sb.WriteString(normPrefix)
		if rng.Intn(8) == 0 {
			sb.WriteString([]string{"foo", "..", "x/../..", "%2f", "x", ".", "s", "x/"}[rng.Intn(8)]) // look-alike (also a single byte that names an entry of the directory root)
		}
	}
	n := rng.Intn(6)
	for i := 0; i < n; i++ {
		sb.WriteString("/")
		if rng.Intn(10) == 0 {
			sb.WriteString("/")
		}
		sb.WriteString(staticSegs[rng.Intn(len(staticSegs))])
	}
	if rng.Intn(4) == 0 {
		sb.WriteString("/")
	}
	p := sb.String()
	if rng.Intn(10) < 4 {
		// fixture-directed: an existing inside file or directory under the right prefix, lightly disguised
		rel := []string{"a.txt", "dir/index.html", "dir/b", "dir", "dir/", "", "index.html", "sp ace", "..x", "idx2", "idx2/", "idx2/home.htm", "deep/d2", "deep/d2/", "static/a.txt", "s/t/u.txt", "noidx/", "diridx/", "deep", "empty.txt", "big.bin", "legacy/", "legacy", "legacy/index.htm", "app.js", "docs", "docs/", "a.txt.gz", "dir/b", "noidx"}[rng.Intn(30)]
		switch rng.Intn(8) {
		case 0:
			rel = "./" + rel
		case 1:
			rel = "zz/../" + rel
		case 2:
			rel = strings.Replace(rel, "/", "//", 1)
		case 3:
			rel = "dir/../" + rel
		}
		p = normPrefix + "/" + rel
		if normPrefix == "/" {
			p = "//" + rel
		}
		if rng.Intn(12) == 0 && strings.ContainsAny(normPrefix, ".") {
			p = "/" + strings.TrimLeft(normPrefix, "/.") + "/" + rel // the prefix without its leading dots is another path
		}
	}
	if p == "" || p[0] != '/' {
		p = "/" + p
	}
	if rng.Intn(200) == 0 {
		p += strings.Repeat("/..", 200) + "/secret.txt"
	}
	c.Path = core.B(p)
	return c
}

var fixtureETag sync.Map

func judgeStatic(w *core.W, fx *fixture, c *staticCase, classes func(string)) {
	w.Eval()
	idx := c.Index
	if idx == "" {
		idx = "index.html"
	}
	opts := flamego.StaticOptions{Directory: fx.pub, Prefix: c.Prefix, Index: c.Index, SetETag: c.ETag, EnableLogging: c.Logging}
	if c.Headers {
		opts.Expires = func() string { return "EXP" }
		opts.CacheControl = func() string { return "CC" }
	}
	if c.CustomFS || c.Fault != "" {
		opts.Directory = filepath.Join(fx.root, "pubx") // must be ignored when FileSystem is set
		var fsys http.FileSystem = http.Dir(fx.pub)
		if c.IOFS {
			fsys = http.FS(os.DirFS(fx.pub))
			w.Count("filesystem:io/fs")
		}
		if c.Fault != "" {
			fsys = faultyFS{inner: fsys, mode: c.Fault, index: idx}
		}
		opts.FileSystem = fsys
	}
	if c.DefaultDir && opts.FileSystem == nil {
		opts.Directory = ""
		w.Count("directory-option-unset")
	} else if c.DirName != "" && opts.FileSystem == nil {
		opts.Directory = filepath.Join(fx.root, c.DirName)
		if len(c.Path)%2 == 0 {
			opts.Directory = c.DirName // relative to the working directory
		}
		w.Count("directory-name-with-odd-characters")
	}
	f := flamego.NewWithLogger(io.Discard)
	if c.Spread {
		sl := []flamego.StaticOptions{opts}
		if len(c.Path)%3 == 0 {
			// the caller's buffer served another declaration first (a Static for the directory above, which is never
			// installed), and was then refilled: every declaration is what its arguments say at that moment
			sl[0] = flamego.StaticOptions{Directory: fx.root, Prefix: "/earlier", Index: "secret.txt"}
			_ = flamego.Static(sl...)
			if opts.FileSystem == nil {
				sl[0].Directory, sl[0].Prefix, sl[0].Index = opts.Directory, opts.Prefix, opts.Index // the caller fills in what it means to change
				sl[0].Expires, sl[0].CacheControl, sl[0].SetETag, sl[0].EnableLogging = opts.Expires, opts.CacheControl, opts.SetETag, opts.EnableLogging
			} else {
				sl[0] = opts
			}
			w.Count("options-slice-used-for-an-earlier-declaration")
		}
		h := flamego.Static(sl...)
		sl[0] = flamego.StaticOptions{Directory: filepath.Join(fx.root, "pubx"), Prefix: "/scribbled", Index: "leak", FileSystem: http.Dir(fx.root)}
		f.Use(h)
		w.Count("options-slice-overwritten-after-creation")
	} else {
		f.Use(flamego.Static(opts))
	}
	nextRan := false
	// the rest of the chain answers on its own: whatever Static left behind (a header, a before-function) would
	// show in that answer
	chain := func(x flamego.Context) {
		nextRan = true
		x.ResponseWriter().Header().Set("X-Chain", "1")
		x.ResponseWriter().WriteHeader(418)
		_, _ = x.ResponseWriter().Write([]byte("CHAIN"))
	}
	f.NotFound(chain)
	for _, m := range routerMethods {
		f.Route(m, "/{**}", []flamego.Handler{chain})
	}
	// routes spelled exactly like paths of files: Static runs first and serves the file; what the router would have
	// done with the path is none of its business
	for _, p := range []string{"/a.txt", "/dir/b", "/static/a.txt", "/index.html", "/empty.txt", "/dir/", "/dir", "/s/t/u.txt", "/static/static/a.txt", "/", "/noidx/", "/app.js"} {
		f.Get(p, chain)
		f.Head(p, chain)
	}
	want := staticOracle(fx, c)
	hdr := http.Header{}
	if k, v, ok := strings.Cut(c.ReqHdr, ": "); ok {
		hdr.Set(k, v)
		w.Count("requests-with-a-negotiation-header")
	}
	if c.INM == "formula" {
		// the tag the middleware's formula gives for what the path denotes (size, base name, modification time)
		tag := `"nothing-there"`
		if want.denoted != "" {
			if st, err := os.Stat(want.denoted); err == nil {
				tag = `"` + base64.StdEncoding.EncodeToString([]byte(fmt.Sprintf("%d%s%s", st.Size(), st.Name(), st.ModTime().UTC().Format(http.TimeFormat)))) + `"`
				if st.IsDir() {
					w.Count("if-none-match:formula-tag-of-a-directory")
				}
			}
		}
		hdr.Set("If-None-Match", tag)
	} else if c.INM != "" {
		tag := `"other"`
		if c.INM == "match" && want.kind == "not-modified" {
			// learn the tag from a plain request first
			probe := &retSpy{h: http.Header{}}
			f.ServeHTTP(probe, &http.Request{Method: "GET", URL: &url.URL{Path: string(c.Path), RawQuery: c.Query}, Header: http.Header{}})
			tag = probe.h.Get("ETag")
			nextRan = false
		}
		hdr.Set("If-None-Match", tag)
	}
	spy := &retSpy{h: http.Header{}}
	var o staticObs
	func() {
		defer func() { o.pan = recover() }()
		f.ServeHTTP(spy, &http.Request{Method: c.Method, URL: &url.URL{Path: string(c.Path), RawQuery: c.Query}, Header: hdr, RequestURI: string(c.Path)})
	}()
	o.status, o.body, o.hdr, o.nextRan = spy.status, string(spy.body), spy.h, nextRan
	if nextRan && o.pan == nil {
		// the chain's own answer, and nothing else
		wantBody := "CHAIN"
		if c.Method == "HEAD" {
			wantBody = ""
		}
		if o.status != 418 || o.body != wantBody || len(o.hdr) != 1 || o.hdr.Get("X-Chain") != "1" {
			w.Violate("static", c, fmt.Sprintf("Static stayed silent and the rest of the chain answered (418 \"CHAIN\", one header), but the response is status %d body %q headers %v: Static must leave nothing behind", o.status, clip(o.body), o.hdr))
			return
		}
		o.status, o.body, o.hdr = 0, "", http.Header{}
	}
	if msg := staticVerdict(fx, c, want, o); msg != "" {
		w.Violate("static", c, msg)
		return
	}
	// path class
	cls := staticClass(fx, c, want)
	w.Count("class:" + cls)
	w.Count("outcome:" + want.kind)
	if c.Fault != "" {
		w.Count("fault:" + c.Fault)
	}
	w.NonTrivial(core.Hash64(c.Prefix, c.Index, fmt.Sprint(c.ETag, c.Headers, c.CustomFS, c.Fault, c.INM), c.Method, cls, string(c.Path)), func() interface{} {
		return map[string]interface{}{"case": c, "class": cls, "outcome": want.kind, "status": o.status}
	})
	w.Sample(func() interface{} { return map[string]interface{}{"case": c, "outcome": want.kind, "status": o.status} })
}

func staticClass(fx *fixture, c *staticCase, want staticOutcome) string {
	p := string(c.Path)
	switch {
	case c.Method != "GET" && c.Method != "HEAD":
		return "other-method"
	case strings.Contains(p, "\x00"):
		return "NUL"
	}
	normPrefix := ""
	if c.Prefix != "" {
		normPrefix = "/" + strings.Trim(c.Prefix, "/")
	}
	if normPrefix != "" && normPrefix != "/" && strings.HasPrefix(p, normPrefix) {
		rest := p[len(normPrefix):]
		if rest != "" && rest[0] != '/' {
			return "look-alike"
		}
	}
	if strings.Contains(p, "..") {
		// does the raw (uncleaned) path leave the directory?
		depth, min := 0, 0
		for _, s := range strings.Split(strings.TrimPrefix(p, normPrefix), "/") {
			switch s {
			case "", ".":
			case "..":
				depth--
			default:
				depth++
			}
			if depth < min {
				min = depth
			}
		}
		if min < 0 {
			return "traversal-out"
		}
		return "traversal-in"
	}
	switch want.kind {
	case "redirect":
		return "dir-no-slash"
	case "file", "not-modified":
		if strings.HasSuffix(p, "/") {
			return "dir-slash"
		}
		return "file"
	}
	if strings.HasSuffix(p, "/") {
		return "dir-no-index-or-missing"
	}
	return "missing"
}

// burstCase: many clients ask for the same directory (served through its index file) at the same moment; the
// file system lets none of them have the directory until Hold of them have asked for it (or a moment has
// passed), so that they all stand between "directory opened" and "index opened" together. Every one of them is
// answered with the index file. (C16: Static serves or stays silent - a request that never returns does neither.)
type burstCase struct {
	Clients int    `json:"clients"`
	Hold    int    `json:"directory_opens_held_together"`
	Path    string `json:"path"`
	ETag    bool   `json:"etag,omitempty"`
}

type meetFS struct {
	inner    http.FileSystem
	need     int64
	inflight int64
}

func (m *meetFS) Open(name string) (http.File, error) {
	f, err := m.inner.Open(name)
	if err != nil {
		return nil, err
	}
	if fi, err := f.Stat(); err == nil && fi.IsDir() {
		atomic.AddInt64(&m.inflight, 1)
		for i := 0; i < 400 && atomic.LoadInt64(&m.inflight) < m.need; i++ {
			time.Sleep(500 * time.Microsecond) // shapes the schedule only: at most 0.2 s
		}
	}
	return f, nil
}

func judgeBurst(w *core.W, fx *fixture, c *burstCase) {
	w.Eval()
	f := flamego.NewWithLogger(io.Discard)
	f.Use(flamego.Static(flamego.StaticOptions{FileSystem: &meetFS{inner: http.Dir(fx.pub), need: int64(c.Hold)}, SetETag: c.ETag}))
	f.NotFound(func() (int, string) { return 418, "CHAIN" })
	want := fx.files[filepath.Join(fx.pub, filepath.FromSlash(strings.Trim(c.Path, "/")), "index.html")]
	type res struct {
		status int
		body   string
		pan    interface{}
	}
	out := make([]res, c.Clients)
	var wg sync.WaitGroup
	for i := 0; i < c.Clients; i++ {
		wg.Add(1)
		go func(i int) {
			defer wg.Done()
			defer func() { out[i].pan = recover() }()
			spy := &retSpy{h: http.Header{}}
			f.ServeHTTP(spy, &http.Request{Method: "GET", URL: &url.URL{Path: c.Path}, Header: http.Header{}})
			out[i].status, out[i].body = spy.status, string(spy.body)
		}(i)
	}
	wg.Wait() // a client that is never answered shows as a case that does not return (supervised)
	for i, o := range out {
		if o.pan != nil || o.status != 200 || o.body != want {
			w.Violate("static-burst", c, fmt.Sprintf("client %d of %d asking for %q at the same moment: panic=%v status=%d body=%q, want 200 with the directory's index file", i, c.Clients, c.Path, o.pan, o.status, clip(o.body)))
			return
		}
	}
	w.CountN("burst-clients-answered", c.Clients)
	w.NonTrivial(core.Hash64("burst", fmt.Sprint(c.Clients, c.Hold, c.Path, c.ETag)), nil)
}

// volatileCase: the served tree changes between two requests of one instance (C16: whatever is sent is the
// content of a file that is there).
type volatileCase struct {
	Name   string `json:"file_name"`
	Then   string `json:"then"` // removed | becomes-directory | rewritten | root-relinked (Directory is a symbolic link that is pointed at another release after Static() was called)
	Prefix string `json:"prefix,omitempty"`
	IOFS   bool   `json:"filesystem_is_an_io_fs,omitempty"`
}

// judgeRelinked: the configured Directory is a symbolic link that is pointed at another release after the
// middleware was created (an atomic deploy): the configured directory is what the link denotes now.
func judgeRelinked(w *core.W, fx *fixture, c *volatileCase) {
	w.Eval()
	base := filepath.Join(fx.root, "rel-"+c.Name)
	defer os.RemoveAll(base)
	for _, rel := range []string{"A", "B"} {
		_ = os.MkdirAll(filepath.Join(base, rel), 0o755)
		_ = os.WriteFile(filepath.Join(base, rel, "app.js"), []byte("INSIDE<release "+rel+" app.js>"), 0o644)
	}
	_ = os.WriteFile(filepath.Join(base, "A", "legacy.css"), []byte("OUTSIDE-MARKER once the link has moved"), 0o644)
	link := filepath.Join(base, "current")
	if err := os.Symlink("A", link); err != nil {
		w.R.Inconclusive("cannot create a symbolic link in the fixture: " + err.Error())
		return
	}
	f := flamego.NewWithLogger(io.Discard)
	f.Use(flamego.Static(flamego.StaticOptions{Directory: link, Prefix: c.Prefix}))
	f.NotFound(func() (int, string) { return 418, "CHAIN" })
	pre := ""
	if c.Prefix != "" {
		pre = "/" + strings.Trim(c.Prefix, "/")
	}
	get := func(p string) (int, string) {
		spy := &retSpy{h: http.Header{}}
		f.ServeHTTP(spy, &http.Request{Method: "GET", URL: &url.URL{Path: pre + p}, Header: http.Header{}, RequestURI: pre + p})
		return spy.status, string(spy.body)
	}
	if st, body := get("/app.js"); st != 200 || body != "INSIDE<release A app.js>" {
		w.Violate("static-volatile", c, fmt.Sprintf("before the link moved: status %d body %q", st, clip(body)))
		return
	}
	_ = os.Remove(link)
	_ = os.Symlink("B", link)
	if st, body := get("/app.js"); st != 200 || body != "INSIDE<release B app.js>" {
		w.Violate("static-volatile", c, fmt.Sprintf("the configured directory is a link that now points at release B: /app.js answered status %d body %q", st, clip(body)))
		return
	}
	if st, body := get("/legacy.css"); st != 418 {
		w.Violate("static-volatile", c, fmt.Sprintf("legacy.css exists only in the release the link no longer points at: status %d body %q (want: nothing written, chain answers)", st, clip(body)))
		return
	}
	w.Count("volatile:root-relinked")
}

func judgeVolatile(w *core.W, fx *fixture, c *volatileCase) {
	if c.Then == "root-relinked" {
		judgeRelinked(w, fx, c)
		return
	}
	w.Eval()
	full := filepath.Join(fx.pub, c.Name)
	_ = os.RemoveAll(full)
	defer os.RemoveAll(full)
	first := "INSIDE<volatile " + c.Name + "> first content"
	if err := os.WriteFile(full, []byte(first), 0o644); err != nil {
		w.R.Inconclusive("cannot write into the fixture: " + err.Error())
		return
	}
	opts := flamego.StaticOptions{Directory: fx.pub, Prefix: c.Prefix, SetETag: true}
	if c.IOFS {
		opts.FileSystem = http.FS(os.DirFS(fx.pub))
	}
	f := flamego.NewWithLogger(io.Discard)
	f.Use(flamego.Static(opts))
	nextRan := false
	f.NotFound(func() { nextRan = true })
	p := "/" + c.Name
	if c.Prefix != "" {
		p = "/" + strings.Trim(c.Prefix, "/") + p
	}
	serve := func(inm string) (*retSpy, bool) {
		nextRan = false
		spy := &retSpy{h: http.Header{}}
		hdr := http.Header{}
		if inm != "" {
			hdr.Set("If-None-Match", inm)
		}
		f.ServeHTTP(spy, &http.Request{Method: "GET", URL: &url.URL{Path: p}, Header: hdr, RequestURI: p})
		return spy, nextRan
	}
	a, _ := serve("")
	tag := a.h.Get("ETag")
	if a.status != 200 || string(a.body) != first || tag == "" {
		w.Violate("static-volatile", c, fmt.Sprintf("first request: status %d body %q ETag %q", a.status, clip(string(a.body)), tag))
		return
	}
	if b, _ := serve(tag); b.status != 304 {
		w.Violate("static-volatile", c, fmt.Sprintf("revalidation of the unchanged file: status %d, want 304", b.status))
		return
	}
	switch c.Then {
	case "removed":
		_ = os.Remove(full)
		for _, inm := range []string{tag, ""} {
			g, next := serve(inm)
			if g.status != 0 || len(g.body) != 0 || !next {
				w.Violate("static-volatile", c, fmt.Sprintf("the file is gone, If-None-Match %q: status %d body %q, rest of the chain ran=%v (want: nothing written, chain continues)", inm, g.status, clip(string(g.body)), next))
				return
			}
		}
	case "becomes-directory":
		_ = os.Remove(full)
		_ = os.Mkdir(full, 0o755)
		g, _ := serve(tag)
		if g.status != 302 {
			w.Violate("static-volatile", c, fmt.Sprintf("the name now denotes a directory, If-None-Match carries the old file's tag: status %d, want the redirect to the slash-terminated form", g.status))
			return
		}
	default:
		second := first + " - rewritten and longer"
		_ = os.WriteFile(full, []byte(second), 0o644)
		g, _ := serve(tag)
		if g.status != 200 || string(g.body) != second {
			w.Violate("static-volatile", c, fmt.Sprintf("the file was rewritten (other size), If-None-Match carries the old tag: status %d body %q, want 200 with the new content", g.status, clip(string(g.body))))
			return
		}
	}
	w.Count("volatile:" + c.Then)
}

func runC16(r *core.Run) {
	r.Rule("fixture tree with unique content per file: inside pub/{a.txt, dir/{index.html,b}, index.html, 'sp ace', ..x, idx2/home.htm, deep/d2/index.html, static/a.txt, s/t/u.txt, noidx/, diridx/index.html/, legacy/ and diridx/ with look-alikes of an index only (index.htm, default.html, INDEX.HTML, index.html.bak, …)} and outside {secret.txt, pubx/leak, pub2/a.txt, index.html, a.txt}; requests: 0-5 segments from a pool with .., ., empty, NUL, backslash, %2e%2e, prefix look-alikes (/staticfoo, /static..), doubled and trailing slashes, a 200-fold ../ run; methods GET/HEAD/others/lower-case/empty; options: Prefix in 8 spellings incl. '/', two segments and doubled slashes, Index default/custom/missing, ETag (+If-None-Match match/other), Expires+CacheControl, FileSystem option, faulty FileSystem (Open/Stat failures, also for the index; the errors are plain ones and the ones an operating system gives: permission denied, too many open files, not found, timeout), Directory left unset (default `public` under the working directory), options passed as a slice that the caller overwrites afterwards; FileSystem as http.Dir or as http.FS(os.DirFS) (a third of the custom-file-system cases); index names with several elements; If-None-Match carrying the tag the middleware's own formula yields for a directory. A second stream (1500/60000 cases) changes the served tree between two requests of one instance: a file is served, revalidated, then removed / replaced by a directory / rewritten, and requested again with the old tag. Oracle: independent outcome function (path.Clean + os.Stat on the fixture) and the universal predicate that no outside-file marker ever appears; silent = no status, no body, no headers and the rest of the chain ran. non-trivial = distinct (option set, method, path class, path)")
	r.Assume("no symlinks inside the served tree (the fixture root holds one, `public` -> `pub`, so that the default Directory can be exercised: the process works inside the fixture root) and no Range / If-Modified-Since requests; for paths with NUL or backslash only the safety predicates are judged (how http.Dir treats odd bytes is net/http's business)")
	fx := newFixture()
	defer fx.remove()
	c16Canaries(r, fx)
	n := r.N(60000, 4000000)
	r.Parallel("static", n, func(w *core.W, rng *rand.Rand, i int) {
		c := genStaticCase(rng)
		w.Begin("static", c)
		judgeStatic(w, fx, c, nil)
	})
	r.Parallel("volatile", r.N(1500, 60000), func(w *core.W, rng *rand.Rand, i int) {
		c := &volatileCase{Name: fmt.Sprintf("vol-%d-%d.txt", w.ID, i), Then: []string{"removed", "becomes-directory", "rewritten", "root-relinked"}[rng.Intn(4)], Prefix: []string{"", "static", "/s/t/"}[rng.Intn(3)], IOFS: rng.Intn(3) == 0}
		w.Begin("volatile", c)
		judgeVolatile(w, fx, c)
	})
	// bursts of simultaneous directory requests, one burst at a time
	ws := r.SerialSupervised()
	for i := 0; i < r.N(6, 60); i++ {
		rng := r.Rand("burst", i)
		c := &burstCase{Clients: []int{96, 128, 160, 256, 300}[rng.Intn(5)], Path: []string{"/dir/", "/", "/deep/d2/"}[rng.Intn(3)], ETag: rng.Intn(2) == 0}
		c.Hold = []int{c.Clients / 2, 64, 32, c.Clients, 100}[rng.Intn(5)]
		ws.Begin("burst", c)
		judgeBurst(ws, fx, c)
	}
	ws.Done()
	ws.Merge()
	r.GateCounter("burst-clients-answered", 200) // (a scaled-down thorough run has three bursts of 96-300 clients)
	for _, k := range []string{"volatile:removed", "volatile:becomes-directory", "volatile:rewritten", "volatile:root-relinked"} {
		r.GateCounter(k, 100)
	}
	for _, k := range []string{"class:traversal-in", "class:traversal-out", "class:look-alike", "class:dir-no-slash", "class:dir-slash", "class:dir-no-index-or-missing", "class:file", "class:missing", "class:NUL", "class:other-method", "outcome:file", "outcome:redirect", "outcome:not-modified", "outcome:silent", "fault:open", "fault:stat", "fault:index-open", "fault:index-stat", "fault:stat-oversize", "directory-option-unset", "directory-name-with-odd-characters", "requests-with-a-negotiation-header", "options-slice-overwritten-after-creation", "filesystem:io/fs", "if-none-match:formula-tag-of-a-directory"} {
		r.GateCounter(k, 30)
	}
	r.Gate("distinct_nontrivial", r.NonTrivialCount(), 5000)
}

func c16Canaries(r *core.Run, fx *fixture) {
	c := &staticCase{Method: "GET", Path: "/a.txt"}
	want := staticOracle(fx, c)
	r.Canary("oracle finds the inside file", want.kind == "file" && strings.HasPrefix(want.body, "INSIDE<pub/a.txt>"))
	r.Canary("faithful passes", staticVerdict(fx, c, want, staticObs{status: 200, body: want.body, hdr: http.Header{}}) == "")
	r.Canary("outside bytes", staticVerdict(fx, &staticCase{Method: "GET", Path: "/../secret.txt"}, staticOutcome{kind: "silent", exact: true}, staticObs{status: 200, body: fx.files[filepath.Join(fx.root, "secret.txt")], hdr: http.Header{}}) != "")
	r.Canary("404 written on a miss", staticVerdict(fx, &staticCase{Method: "GET", Path: "/nope"}, staticOutcome{kind: "silent", exact: true}, staticObs{status: 404, hdr: http.Header{}}) != "")
	r.Canary("POST answered", staticVerdict(fx, &staticCase{Method: "POST", Path: "/a.txt"}, staticOutcome{kind: "silent", exact: true}, staticObs{status: 200, body: want.body, hdr: http.Header{}}) != "")
	r.Canary("look-alike prefix served", func() bool {
		cc := &staticCase{Method: "GET", Prefix: "static", Path: "/staticfoo/a.txt"}
		return staticOracle(fx, cc).kind == "silent" && staticVerdict(fx, cc, staticOracle(fx, cc), staticObs{status: 200, body: want.body, hdr: http.Header{}}) != ""
	}())
	r.Canary("directory without redirect", func() bool {
		cc := &staticCase{Method: "GET", Path: "/dir"}
		w2 := staticOracle(fx, cc)
		return w2.kind == "redirect" && staticVerdict(fx, cc, w2, staticObs{status: 200, body: "x", hdr: http.Header{}}) != ""
	}())
	r.Canary("silent but chain not continued", staticVerdict(fx, &staticCase{Method: "GET", Path: "/nope"}, staticOutcome{kind: "silent", exact: true}, staticObs{hdr: http.Header{}}) != "")
}
