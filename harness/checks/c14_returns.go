package checks

import (
	gocontext "context"
	"encoding/json"
	"errors"
	"fmt"
	"io"
	"math/rand"
	"net"
	"net/http"
	"net/url"
	"os"
	"reflect"
	"strings"
	"syscall"

	"github.com/flamego/flamego"
	"github.com/flamego/flamego/verifharness/core"
)

// retCase: one handler returning values of one supported shape, somewhere in a chain (C14).
type retCase struct {
	Env      string `json:"env,omitempty"`                                       // process environment while the case runs (the runner sets it per phase): the table does not depend on it
	PreHdr   string `json:"response_header_set_by_an_earlier_handler,omitempty"` // one "Name: value" line an earlier handler puts into the response header map (Location, Status, Refresh ...): the status comes from the table, not from what the header map holds
	AsAction bool   `json:"returning_handler_is_the_action,omitempty"`           // the returning handler is installed with Flame.Action (the tail of every chain) instead of as the route's last-but-one handler: what it returns is rendered by the same table
	Battery  bool   `json:"built_in_middleware_in_front,omitempty"`              // Logger, Recovery and Renderer are installed ahead of everything: a returned value is rendered by the same table
	Shape    string `json:"shape"`
	Int      int    `json:"int,omitempty"`
	Str      core.B `json:"str,omitempty"`
	Nil      bool   `json:"nil,omitempty"`                           // nil slice / nil pointer / nil interface instead of Str
	Err      string `json:"err,omitempty"`                           // "" nil | new | custom | wrapped | sentinel:<i> | wrapped-sentinel:<i> (well-known error values of the standard library: what is written is Error(), whatever the error is)
	Long     int    `json:"long_text_bytes,omitempty"`               // the returned text (and possibly the error message) is this long: sizes around 4 KiB, 8 KiB, 64 KiB, 1 MiB
	ErrMsg   core.B `json:"err_msg,omitempty"`                       //
	Pos      int    `json:"pos"`                                     // number of silent handlers before it
	Reflect  bool   `json:"reflective"`                              // add an injected parameter so that the built-in fast path cannot apply
	Custom   string `json:"custom,omitempty"`                        // "" | app | request | request-late | self (the returning handler maps it itself, right before it returns) : a custom ReturnHandler is registered there (late = after the silent handlers ran)
	In       string `json:"in,omitempty"`                            // parameters of the handler: "" none | req | rw,req | ctx   (none of these changes what a return value means)
	FailW    bool   `json:"underlying_write_fails,omitempty"`        // the client is gone: every Write on the underlying writer fails. Nothing of this request may reach a later one
	PreRet   bool   `json:"silent_handlers_return_values,omitempty"` // the preceding silent handlers return "" / nil error / nil []byte
	Method   string `json:"method,omitempty"`
	Cancel   bool   `json:"request_context_cancelled_by_the_returning_handler,omitempty"` // the returning handler cancels the request context before it returns: what it returns is still the response (the chain stops afterwards either way, C03)
	PreWrite bool   `json:"handler_writes_before_returning,omitempty"`                    // the returning handler has already written "head|" (status 200) itself: what it returns is still rendered, after that
	WrapW    bool   `json:"plain_writer_mapped_by_middleware,omitempty"`                  // a middleware maps a plain http.ResponseWriter (not a flamego one) that brackets what passes through it: returned values are written through the writer the injector holds
}

func init() {
	register(&Check{ID: "C14", Run: runC14, Replay: func(w *core.W, kind string, raw json.RawMessage) {
		var c retCase
		if err := json.Unmarshal(raw, &c); err != nil {
			w.R.Inconclusive("replay case does not decode: " + err.Error())
			return
		}
		w.Begin("ret", &c)
		judgeRet(w, &c)
	}})
}

// c14Digit: a named byte type; a slice of it is a slice of bytes as far as its elements go
type c14Digit uint8

func c14Digits(s string) []c14Digit {
	out := make([]c14Digit, len(s))
	for i := 0; i < len(s); i++ { // byte by byte (ranging over a string would step by runes)
		out[i] = c14Digit(s[i])
	}
	return out
}

type c14Named string

// String-kind and byte-slice-kind result types that also know how to present themselves. What a handler returns
// is its value; how the type would print itself is nobody's business here.
// c14APIFunc: a named function type with a signature of its own and a ServeHTTP method on top (the usual
// "handler that returns an error" adapter). Registered as a handler it is a function.
type c14APIFunc func(http.ResponseWriter, *http.Request) error

func (f c14APIFunc) ServeHTTP(w http.ResponseWriter, r *http.Request) {
	if err := f(w, r); err != nil {
		http.Error(w, "adapter: "+err.Error(), http.StatusBadGateway)
	} else {
		w.WriteHeader(http.StatusNotImplemented)
	}
}

// c14Status: a named integer type (the way applications name their status codes). An integer by kind.
type c14Status int

type c14Secret string

func (c14Secret) String() string   { return "Secret(REDACTED)" }
func (c14Secret) GoString() string { return "c14Secret{…}" }

type c14Fmt string

func (c14Fmt) Format(f fmt.State, _ rune) { _, _ = io.WriteString(f, "FORMATTED") }

type c14HexBytes []byte

func (b c14HexBytes) String() string { return fmt.Sprintf("%x", []byte(b)) }

type c14NamedBytes []byte // a named byte-slice type (like json.RawMessage): a byte slice by kind
// c14ValErr is a concrete, non-pointer error type: its zero value is a non-nil error with a message.
type c14ValErr struct{ Code int }

func (e c14ValErr) Error() string { return fmt.Sprintf("valerr-%d", e.Code) }

// c14SafeErr: a pointer type whose Error method also works on a nil receiver - an error interface holding
// (*c14SafeErr)(nil) is a non-nil error with a message
type c14SafeErr struct{ msg string }

func (e *c14SafeErr) Error() string {
	if e == nil {
		return "lookup failed"
	}
	return e.msg
}

// c14CodedErr carries the method names frameworks like to look for; the table knows errors, not their methods
type c14CodedErr struct{ msg string }

func (e c14CodedErr) Error() string   { return e.msg }
func (e c14CodedErr) StatusCode() int { return 404 }
func (e c14CodedErr) Status() int     { return 409 }
func (e c14CodedErr) Code() int       { return 400 }
func (e c14CodedErr) Timeout() bool   { return true }
func (e c14CodedErr) Temporary() bool { return true }
func (e c14CodedErr) Unwrap() error   { return nil }

type c14Err struct{ msg string }

func (e *c14Err) Error() string { return e.msg }

var retShapes = []string{"string", "bytes", "error", "int,string", "int,bytes", "int,error", "string,error", "bytes,error", "*string", "named", "iface", "*bytes", "namedbytes", "int,namedbytes", "valerr", "int,valerr", "string,valerr", "iface-err", "int,iface-err", "int,iface", "int,string,int", "bool", "struct", "digits", "int,digits", "*digits", "digits,error", "stringer", "int,stringer", "formatter", "stringer,error", "bytes-stringer", "nstatus,string", "nstatus,bytes", "nstatus,error"}

var (
	tString = reflect.TypeOf("")
	tBytes  = reflect.TypeOf([]byte(nil))
	tError  = reflect.TypeOf((*error)(nil)).Elem()
	tInt    = reflect.TypeOf(0)
	tPStr   = reflect.TypeOf((*string)(nil))
	tPBytes = reflect.TypeOf((*[]byte)(nil))
	tNamed  = reflect.TypeOf(c14Named(""))
	tNBytes = reflect.TypeOf(c14NamedBytes(nil))
	tValErr = reflect.TypeOf(c14ValErr{})
	tRW     = reflect.TypeOf((*http.ResponseWriter)(nil)).Elem()
	tCtx    = reflect.TypeOf((*flamego.Context)(nil)).Elem()
	tIface  = reflect.TypeOf((*interface{})(nil)).Elem()
	tReq    = reflect.TypeOf((*http.Request)(nil))
)

func (c *retCase) errValue() reflect.Value {
	switch c.Err {
	case "new":
		return reflect.ValueOf(errors.New(string(c.ErrMsg))).Convert(tError)
	case "custom":
		return reflect.ValueOf(&c14Err{string(c.ErrMsg)}).Convert(tError)
	case "wrapped":
		return reflect.ValueOf(fmt.Errorf("%w", errors.New(string(c.ErrMsg)))).Convert(tError)
	}
	switch c.Err {
	case "nilptr-safe":
		return reflect.ValueOf((*c14SafeErr)(nil)).Convert(tError)
	case "coded":
		return reflect.ValueOf(c14CodedErr{"coded:" + string(c.ErrMsg)}).Convert(tError)
	}
	if e := c.sentinel(); e != nil {
		return reflect.ValueOf(&e).Elem()
	}
	return reflect.Zero(tError)
}

// c14Sentinels: error values with an identity that library code likes to special-case.
var c14Sentinels = []error{gocontext.Canceled, gocontext.DeadlineExceeded, io.EOF, io.ErrUnexpectedEOF, http.ErrAbortHandler, os.ErrNotExist, io.ErrClosedPipe, net.ErrClosed, http.ErrHandlerTimeout, http.ErrBodyNotAllowed, http.ErrNoCookie, os.ErrDeadlineExceeded, syscall.EPIPE, io.ErrShortWrite}

func (c *retCase) sentinel() error {
	var i int
	if n, _ := fmt.Sscanf(c.Err, "sentinel:%d", &i); n == 1 && i >= 0 && i < len(c14Sentinels) {
		return c14Sentinels[i]
	}
	if n, _ := fmt.Sscanf(c.Err, "wrapped-sentinel:%d", &i); n == 1 && i >= 0 && i < len(c14Sentinels) {
		return fmt.Errorf("while answering: %w", c14Sentinels[i])
	}
	return nil
}

// errText is the text of the returned error (the body the table prescribes).
func (c *retCase) errText() string {
	switch c.Err {
	case "nilptr-safe":
		return "lookup failed"
	case "coded":
		return "coded:" + string(c.ErrMsg)
	}
	if e := c.sentinel(); e != nil {
		return e.Error()
	}
	return string(c.ErrMsg)
}

func (c *retCase) strish(t reflect.Type) reflect.Value {
	switch t {
	case tString:
		return reflect.ValueOf(string(c.Str))
	case tNamed:
		return reflect.ValueOf(c14Named(c.Str))
	case tBytes:
		if c.Nil {
			return reflect.Zero(tBytes)
		}
		return reflect.ValueOf([]byte(c.Str))
	case tNBytes:
		if c.Nil {
			return reflect.Zero(tNBytes)
		}
		return reflect.ValueOf(c14NamedBytes(c.Str))
	case tPStr:
		if c.Nil {
			return reflect.Zero(tPStr)
		}
		s := string(c.Str)
		return reflect.ValueOf(&s)
	case tPBytes:
		if c.Nil {
			return reflect.Zero(tPBytes)
		}
		b := []byte(c.Str)
		return reflect.ValueOf(&b)
	case tIface:
		if c.Nil {
			return reflect.Zero(tIface)
		}
		return reflect.ValueOf(string(c.Str)).Convert(tIface)
	}
	panic("strish")
}

func (c *retCase) outs() ([]reflect.Type, []reflect.Value) {
	switch c.Shape {
	case "string":
		return []reflect.Type{tString}, []reflect.Value{c.strish(tString)}
	case "named":
		return []reflect.Type{tNamed}, []reflect.Value{c.strish(tNamed)}
	case "nstatus,string":
		return []reflect.Type{reflect.TypeOf(c14Status(0)), tString}, []reflect.Value{reflect.ValueOf(c14Status(c.Int)), c.strish(tString)}
	case "nstatus,bytes":
		return []reflect.Type{reflect.TypeOf(c14Status(0)), tBytes}, []reflect.Value{reflect.ValueOf(c14Status(c.Int)), c.strish(tBytes)}
	case "nstatus,error":
		return []reflect.Type{reflect.TypeOf(c14Status(0)), tError}, []reflect.Value{reflect.ValueOf(c14Status(c.Int)), c.errValue()}
	case "stringer":
		return []reflect.Type{reflect.TypeOf(c14Secret(""))}, []reflect.Value{reflect.ValueOf(c14Secret(c.Str))}
	case "int,stringer":
		return []reflect.Type{tInt, reflect.TypeOf(c14Secret(""))}, []reflect.Value{reflect.ValueOf(c.Int), reflect.ValueOf(c14Secret(c.Str))}
	case "stringer,error":
		return []reflect.Type{reflect.TypeOf(c14Secret("")), tError}, []reflect.Value{reflect.ValueOf(c14Secret(c.Str)), c.errValue()}
	case "formatter":
		return []reflect.Type{reflect.TypeOf(c14Fmt(""))}, []reflect.Value{reflect.ValueOf(c14Fmt(c.Str))}
	case "bytes-stringer":
		return []reflect.Type{reflect.TypeOf(c14HexBytes(nil))}, []reflect.Value{reflect.ValueOf(c14HexBytes(c.Str))}
	case "bytes":
		return []reflect.Type{tBytes}, []reflect.Value{c.strish(tBytes)}
	case "namedbytes":
		return []reflect.Type{tNBytes}, []reflect.Value{c.strish(tNBytes)}
	case "int,namedbytes":
		return []reflect.Type{tInt, tNBytes}, []reflect.Value{reflect.ValueOf(c.Int), c.strish(tNBytes)}
	case "*string":
		return []reflect.Type{tPStr}, []reflect.Value{c.strish(tPStr)}
	case "*bytes":
		return []reflect.Type{tPBytes}, []reflect.Value{c.strish(tPBytes)}
	case "digits":
		return []reflect.Type{reflect.TypeOf([]c14Digit(nil))}, []reflect.Value{reflect.ValueOf(c14Digits(string(c.Str)))}
	case "int,digits":
		return []reflect.Type{tInt, reflect.TypeOf([]c14Digit(nil))}, []reflect.Value{reflect.ValueOf(c.Int), reflect.ValueOf(c14Digits(string(c.Str)))}
	case "*digits":
		d := c14Digits(string(c.Str))
		return []reflect.Type{reflect.TypeOf(&d)}, []reflect.Value{reflect.ValueOf(&d)}
	case "digits,error":
		return []reflect.Type{reflect.TypeOf([]c14Digit(nil)), tError}, []reflect.Value{reflect.ValueOf(c14Digits(string(c.Str))), c.errValue()}
	case "iface-err": // a result slot declared interface{} that holds a non-nil error: still a non-nil error
		return []reflect.Type{tIface}, []reflect.Value{reflect.ValueOf(errors.New("ie:" + string(c.Str))).Convert(tIface)}
	case "int,iface-err":
		return []reflect.Type{tInt, tIface}, []reflect.Value{reflect.ValueOf(c.Int), reflect.ValueOf(errors.New("ie:" + string(c.Str))).Convert(tIface)}
	case "int,iface":
		return []reflect.Type{tInt, tIface}, []reflect.Value{reflect.ValueOf(c.Int), c.strish(tIface)}
	case "int,string,int": // outside the table: only a custom ReturnHandler gives it a meaning
		return []reflect.Type{tInt, tString, tInt}, []reflect.Value{reflect.ValueOf(c.Int), c.strish(tString), reflect.ValueOf(7)}
	case "bool":
		return []reflect.Type{reflect.TypeOf(true)}, []reflect.Value{reflect.ValueOf(len(c.Str)%2 == 0)}
	case "struct":
		return []reflect.Type{reflect.TypeOf(c14ValErr{}.Code), reflect.TypeOf(struct{ A string }{})}, []reflect.Value{reflect.ValueOf(3), reflect.ValueOf(struct{ A string }{string(c.Str)})}
	case "iface":
		return []reflect.Type{tIface}, []reflect.Value{c.strish(tIface)}
	case "error":
		return []reflect.Type{tError}, []reflect.Value{c.errValue()}
	case "valerr": // the result type is the concrete error type; the value may be its zero value
		return []reflect.Type{tValErr}, []reflect.Value{reflect.ValueOf(c14ValErr{Code: len(c.Str) % 2})}
	case "int,valerr":
		return []reflect.Type{tInt, tValErr}, []reflect.Value{reflect.ValueOf(c.Int), reflect.ValueOf(c14ValErr{Code: len(c.Str) % 2})}
	case "string,valerr":
		return []reflect.Type{tString, tValErr}, []reflect.Value{c.strish(tString), reflect.ValueOf(c14ValErr{Code: len(c.Str) % 2})}
	case "int,string":
		return []reflect.Type{tInt, tString}, []reflect.Value{reflect.ValueOf(c.Int), c.strish(tString)}
	case "int,bytes":
		return []reflect.Type{tInt, tBytes}, []reflect.Value{reflect.ValueOf(c.Int), c.strish(tBytes)}
	case "int,error":
		return []reflect.Type{tInt, tError}, []reflect.Value{reflect.ValueOf(c.Int), c.errValue()}
	case "string,error":
		return []reflect.Type{tString, tError}, []reflect.Value{c.strish(tString), c.errValue()}
	case "bytes,error":
		return []reflect.Type{tBytes, tError}, []reflect.Value{c.strish(tBytes), c.errValue()}
	}
	panic("unknown shape " + c.Shape)
}

// retTable is the table of the statement as a function of the returned values:
// (status, body, wrote). wrote=false means nothing is written and the chain continues.
func retTable(c *retCase) (int, string, bool) {
	body := string(c.Str)
	if c.isNil() {
		body = ""
	}
	one := func() (int, string, bool) { // a lone string-ish value
		if body == "" {
			return 0, "", false
		}
		return 200, body, true
	}
	switch c.Shape {
	case "string", "named", "bytes", "*string", "*bytes", "iface", "namedbytes", "digits", "*digits", "stringer", "formatter", "bytes-stringer":
		return one()
	case "int,stringer":
		return c.Int, body, true
	case "int,digits":
		return c.Int, body, true
	case "digits,error":
		if c.Err != "" {
			return 500, c.errText(), true
		}
		return one()
	case "iface-err":
		return 500, "ie:" + string(c.Str), true
	case "int,iface-err":
		return c.Int, "ie:" + string(c.Str), true
	case "int,iface":
		return c.Int, body, true
	case "int,string,int", "bool", "struct":
		return 0, "", false // never consulted: these shapes are only generated together with a custom ReturnHandler
	case "valerr", "string,valerr": // a non-nil error (also when it is the zero value of its concrete type)
		return 500, fmt.Sprintf("valerr-%d", len(c.Str)%2), true
	case "int,valerr":
		return c.Int, fmt.Sprintf("valerr-%d", len(c.Str)%2), true
	case "error":
		if c.Err == "" {
			return 0, "", false
		}
		return 500, c.errText(), true
	case "int,string", "int,bytes", "int,namedbytes", "nstatus,string", "nstatus,bytes":
		return c.Int, body, true
	case "int,error", "nstatus,error":
		if c.Err == "" {
			return c.Int, "", true
		}
		return c.Int, c.errText(), true
	case "string,error", "bytes,error", "stringer,error":
		if c.Err != "" {
			return 500, c.errText(), true
		}
		return one()
	}
	panic("unknown shape")
}

// outOfTable: result lists the statement's table says nothing about; a custom ReturnHandler must still get them.
func (c *retCase) outOfTable() bool {
	return c.Shape == "int,string,int" || c.Shape == "bool" || c.Shape == "struct"
}

// isNil: the Nil flag only means something for shapes with a nil-able string-ish value.
func (c *retCase) isNil() bool {
	switch c.Shape {
	case "bytes", "*string", "*bytes", "iface", "int,bytes", "bytes,error", "namedbytes", "int,namedbytes", "int,iface", "nstatus,bytes":
		return c.Nil
	}
	return false
}

// unjudged: non-nil zero-length values (DESIGN §6 interpretations).
func (c *retCase) unjudged() bool {
	if c.isNil() || len(c.Str) > 0 {
		return false
	}
	switch c.Shape {
	case "bytes", "*string", "*bytes", "iface", "bytes,error", "namedbytes", "digits", "*digits", "digits,error", "bytes-stringer":
		return (c.Shape != "bytes,error" && c.Shape != "digits,error") || c.Err == ""
	}
	return false
}

// c14Bracket is a plain http.ResponseWriter a middleware puts in front of the context's writer
type c14Bracket struct {
	inner  http.ResponseWriter
	status int
	body   []byte
}

func (b *c14Bracket) Header() http.Header { return b.inner.Header() }
func (b *c14Bracket) WriteHeader(c int) {
	if b.status == 0 {
		b.status = c
	}
	b.inner.WriteHeader(c)
}
func (b *c14Bracket) Write(p []byte) (int, error) {
	if b.status == 0 {
		b.status = 200
	}
	b.body = append(b.body, p...)
	return b.inner.Write(p)
}

type retSpy struct {
	h       http.Header // what the client receives: frozen when the status goes out, the way a connection does it
	live    http.Header // the map Header() keeps handing out after that (changes to it reach nobody)
	status  int
	body    []byte
	calls   int
	failW   bool
	early   []int // with interim set: informational statuses (1xx other than 101) sent ahead of the response, as net/http allows
	interim bool
}

func (s *retSpy) Header() http.Header {
	if s.live != nil {
		return s.live
	}
	return s.h
}

// commit: the header goes out with the status; what is set afterwards is not sent.
func (s *retSpy) commit() {
	if s.live == nil && s.h != nil {
		s.live, s.h = s.h, s.h.Clone()
	}
}
func (s *retSpy) WriteHeader(c int) {
	if s.interim && s.status == 0 && c >= 100 && c <= 199 && c != 101 {
		s.early = append(s.early, c)
		return
	}
	s.calls++
	if s.status == 0 {
		s.status = c
		s.commit()
	}
}
func (s *retSpy) Write(b []byte) (int, error) {
	if s.status == 0 {
		s.status = 200
		s.commit()
	}
	if s.failW {
		return 0, errors.New("injected: connection gone")
	}
	s.body = append(s.body, b...)
	return len(b), nil
}

var retStrings = []string{"", "", "x", "hello", "\x00\xff", "<b>&", "500", "a\nb", "é", string(make([]byte, 300))}

func genRetCase(rng *rand.Rand) *retCase {
	c := &retCase{Shape: retShapes[rng.Intn(len(retShapes))], Pos: rng.Intn(3), Reflect: rng.Intn(2) == 0}
	c.Int = []int{200, 201, 204, 301, 400, 404, 418, 500, 503, 100 + rng.Intn(500), 599, 600, 700, 999, 600 + rng.Intn(400)}[rng.Intn(15)]
	c.Str = core.B(retStrings[rng.Intn(len(retStrings))])
	if rng.Intn(5) == 0 {
		c.Nil = true
	}
	if rng.Intn(2) == 0 {
		c.Err = []string{"new", "custom", "wrapped"}[rng.Intn(3)]
		c.ErrMsg = core.B([]string{"boom", "", "e: x", "\xff"}[rng.Intn(4)])
		if rng.Intn(6) == 0 {
			c.Err = []string{"nilptr-safe", "coded"}[rng.Intn(2)]
		} else if rng.Intn(4) == 0 {
			c.Err = fmt.Sprintf("%s:%d", []string{"sentinel", "wrapped-sentinel"}[rng.Intn(2)], rng.Intn(len(c14Sentinels)))
			c.ErrMsg = ""
		}
	}
	c.Cancel = rng.Intn(10) == 0
	c.PreWrite = rng.Intn(12) == 0
	c.WrapW = rng.Intn(10) == 0
	c.Method = []string{"GET", "GET", "POST", "HEAD", "HEAD"}[rng.Intn(5)]
	c.FailW = rng.Intn(25) == 0
	c.In = []string{"", "", "req", "rw,req", "ctx"}[rng.Intn(5)]
	if rng.Intn(8) == 0 {
		c.Custom = []string{"app", "request", "request-late", "self"}[rng.Intn(4)]
	}
	if c.outOfTable() && c.Custom == "" {
		c.Custom = []string{"app", "request", "request-late", "self"}[rng.Intn(4)]
	}
	if c.Custom != "" {
		c.PreWrite = false
	}
	if c.WrapW {
		c.PreWrite, c.PreRet = false, false
	}
	if c.Custom != "app" && c.Custom != "request" && rng.Intn(2) == 0 {
		c.PreRet = true
		if c.Pos == 0 {
			c.Pos = 1
		}
	}
	if rng.Intn(15) == 0 {
		// drawn last: a long text (sizes around the usual buffer sizes) as the returned string / bytes and, half of the
		// time, as the error's message - the body is that text, all of it and nothing else
		n := []int{4095, 4096, 4097, 8191, 8192, 8193, 10000, 16384, 32769, 65535, 65536, 65537, 100000, 1<<20 + 3}[rng.Intn(14)]
		b := make([]byte, n)
		for i := range b {
			b[i] = "abcdefghijklmnopqrstuvwxyz0123456789-_"[(i+i/38)%38]
		}
		c.Str = core.B(b)
		if c.Err != "" && len(c.ErrMsg) > 0 && rng.Intn(2) == 0 {
			c.ErrMsg = core.B(b)
		}
		c.Long = n
	}
	return c
}

func judgeRet(w *core.W, c *retCase) {
	w.Eval()
	if c.unjudged() {
		w.Count("unjudged:non-nil-empty")
		return
	}
	outT, outV := c.outs()
	var in []reflect.Type
	if c.Reflect {
		in = []reflect.Type{tReq}
	}
	switch c.In {
	case "req":
		in = []reflect.Type{tReq}
	case "rw,req":
		in = []reflect.Type{tRW, tReq}
	case "ctx":
		in = []reflect.Type{tCtx}
	}
	ran := 0
	var preW flamego.ResponseWriter
	var selfCtx flamego.Context
	var custom flamego.ReturnHandler
	var bracket *c14Bracket
	reqCtx, cancelReq := gocontext.WithCancel(gocontext.Background())
	defer cancelReq()
	h := reflect.MakeFunc(reflect.FuncOf(in, outT, false), func([]reflect.Value) []reflect.Value {
		ran++
		if c.Custom == "self" && selfCtx != nil {
			selfCtx.Map(custom)
		}
		if c.Cancel {
			cancelReq()
		}
		if c.PreWrite {
			_, _ = preW.Write([]byte("head|"))
		}
		return outV
	}).Interface()

	if c.Env != "" && string(flamego.Env()) != c.Env {
		defer flamego.SetEnv(flamego.Env())
		flamego.SetEnv(flamego.EnvType(c.Env)) // (replay; in a run the phase has set it)
	}
	f := flamego.NewWithLogger(io.Discard)
	if c.Battery {
		f.Use(flamego.Logger(), flamego.Recovery(), flamego.Renderer())
		w.Count("built-in-middleware-in-front:" + c.Env)
	}
	if c.PreWrite {
		f.Use(func(ctx flamego.Context) { preW = ctx.ResponseWriter() })
	}
	customCalls := 0
	var customVals []reflect.Value
	custom = flamego.ReturnHandler(func(_ flamego.Context, vals []reflect.Value) {
		customCalls++
		customVals = vals
	})
	if c.Custom == "app" {
		f.Map(custom)
	}
	pre := 0
	var hs []flamego.Handler
	if c.Custom == "request" {
		hs = append(hs, func(ctx flamego.Context) { ctx.Map(custom) })
	}
	if c.Custom == "self" {
		hs = append(hs, func(ctx flamego.Context) { selfCtx = ctx })
	}
	if c.WrapW {
		hs = append(hs, func(ctx flamego.Context) {
			bracket = &c14Bracket{inner: ctx.ResponseWriter()}
			ctx.MapTo(bracket, (*http.ResponseWriter)(nil))
		})
	}
	if k, v, ok := strings.Cut(c.PreHdr, ": "); ok {
		hs = append(hs, func(ctx flamego.Context) { ctx.ResponseWriter().Header().Set(k, v) })
		w.Count("response-header-preset")
	}
	for i := 0; i < c.Pos; i++ {
		switch {
		case !c.PreRet:
			hs = append(hs, func() { pre++ })
		case i%3 == 0:
			hs = append(hs, func() string { pre++; return "" })
		case i%3 == 1 && len(c.Str)%2 == 0:
			// a silent handler of a named function type that also has a ServeHTTP method (an adapter type): it is a
			// function with its own signature and is invoked as such
			hs = append(hs, c14APIFunc(func(http.ResponseWriter, *http.Request) error { pre++; return nil }))
		case i%3 == 1:
			hs = append(hs, func() error { pre++; return nil })
		default:
			hs = append(hs, func() []byte { pre++; return nil })
		}
	}
	if c.Custom == "request-late" {
		hs = append(hs, func(ctx flamego.Context) { ctx.Map(custom) })
	}
	marker := 0
	if c.AsAction {
		hs = append(hs, func() {})
		f.Action(h)
		w.Count("returning-handler-is-the-action")
	} else {
		hs = append(hs, h, func() { marker++ })
	}
	meth := c.Method
	if meth == "" {
		meth = "GET"
	}
	f.Route(meth, "/r", hs)
	spy := &retSpy{h: http.Header{}, failW: c.FailW}
	var pan interface{}
	func() {
		defer func() { pan = recover() }()
		f.ServeHTTP(spy, (&http.Request{Method: meth, URL: &url.URL{Path: "/r"}, Header: http.Header{}}).WithContext(reqCtx))
	}()
	if c.AsAction && spy.status == 0 && !c.Cancel {
		marker = 1 // nothing follows the action: a chain that ran to its end without an answer has "continued"
	}
	fast := !c.Reflect && c.In == "" && c.Shape == "int,string"
	path := "reflective"
	if fast {
		path = "fast"
	}
	if msg := retVerdict(c, pan, ran, pre, spy.status, string(spy.body), marker, customCalls, customVals); msg != "" {
		w.Violate("return-table", c, fmt.Sprintf("[%s path] %s", path, msg))
		return
	}
	if c.WrapW && bracket != nil && c.Custom == "" {
		w.Count("plain-writer-mapped-by-middleware")
		want := string(spy.body)
		if c.FailW {
			want = string(bracket.body) // nothing is delivered when the connection is gone; what was handed to the bracket stands
		}
		if bracket.status != spy.status || (meth != "HEAD" && string(bracket.body) != want) {
			w.Violate("return-table", c, fmt.Sprintf("[%s path] the client received status %d body %q, but the http.ResponseWriter a middleware mapped for this request saw status %d body %q: returned values are written through the writer the injector holds", path, spy.status, clip(string(spy.body)), bracket.status, clip(string(bracket.body))))
			return
		}
	}
	cls := "non-empty"
	switch {
	case c.Err != "" && (c.Shape == "error" || c.Shape == "int,error" || c.Shape == "string,error" || c.Shape == "bytes,error"):
		cls = "error"
	case c.isNil():
		cls = "nil"
	case len(c.Str) == 0:
		cls = "zero"
	case c.Shape == "*string" || c.Shape == "*bytes":
		cls = "pointer"
	}
	w.Count("class:" + c.Shape + "/" + cls)
	if c.Long > 0 {
		w.Count("long-text-returned")
	}
	w.Count("path:" + path)
	w.Count("method:" + meth)
	if c.Custom != "" {
		w.Count("custom:" + c.Custom)
	}
	if c.PreRet {
		w.Count("silent-handlers-returned-values")
	}
	if c.Cancel {
		w.Count("request-cancelled-by-returning-handler")
	}
	if c.sentinel() != nil {
		w.Count("standard-library-error-value-returned")
	}
	if c.PreWrite {
		w.Count("handler-wrote-before-returning")
	}
	if c.outOfTable() {
		w.Count("out-of-table-shape-with-custom-return-handler")
	}
	if c.Int >= 600 {
		w.Count("status>=600")
	}
	w.NonTrivial(core.Hash64(c.Shape, cls, path, c.Custom, fmt.Sprint(c.Pos, c.PreRet, c.Method), fmt.Sprint(c.Int), string(c.Str), c.Err, string(c.ErrMsg)), func() interface{} {
		return map[string]interface{}{"case": c, "status": spy.status, "body": core.B(spy.body), "next_handler_ran": marker == 1}
	})
}

func retVerdict(c *retCase, pan interface{}, ran, pre, status int, body string, marker, customCalls int, customVals []reflect.Value) string {
	if pan != nil {
		return fmt.Sprintf("panic: %v", pan)
	}
	if ran != 1 || pre != c.Pos {
		return fmt.Sprintf("the returning handler ran %d times, %d of %d preceding handlers ran", ran, pre, c.Pos)
	}
	if c.Custom != "" {
		if customCalls != 1 {
			return fmt.Sprintf("a custom ReturnHandler is registered (%s scope) but was called %d times", c.Custom, customCalls)
		}
		_, outV := c.outs()
		if len(customVals) != len(outV) {
			return "custom ReturnHandler received a different number of values"
		}
		outT, _ := c.outs()
		for i := range outV {
			if !customVals[i].IsValid() || customVals[i].Type() != outT[i] {
				return fmt.Sprintf("custom ReturnHandler received value %d as %v, the handler's declared result type is %v (results come back unchanged, on every invocation path)", i, describeValue(customVals[i]), outT[i])
			}
			if !reflect.DeepEqual(valueIface(customVals[i]), valueIface(outV[i])) {
				return fmt.Sprintf("custom ReturnHandler received value %d = %v, handler returned %v", i, valueIface(customVals[i]), valueIface(outV[i]))
			}
		}
		if status != 0 || body != "" {
			return fmt.Sprintf("the default table was applied (status %d body %q) although a custom ReturnHandler replaces it", status, body)
		}
		if marker != 1 && !c.Cancel {
			return "nothing was written, yet the next handler did not run"
		}
		return ""
	}
	ws, wb, wrote := retTable(c)
	if c.PreWrite {
		// the status line (200) and "head|" are out already; the returned value is rendered behind them
		if !wrote {
			wb = ""
		}
		ws, wb, wrote = 200, "head|"+wb, true
	}
	if c.FailW {
		wb = "" // nothing can be delivered; the status line still is what the table says
	}
	if c.Method == "HEAD" {
		wb = "" // the status is committed as the table says, body bytes are not forwarded for HEAD (C13)
	}
	if !wrote {
		if status != 0 || body != "" {
			return fmt.Sprintf("nil/empty/zero results must write nothing; observed status %d body %q", status, body)
		}
		if marker != 1 && !c.Cancel {
			return "nothing was written, yet the next handler did not run"
		}
		if marker != 0 && c.Cancel {
			return "the request context was cancelled, yet the next handler still ran (C03)"
		}
		return ""
	}
	if status != ws || body != wb {
		return fmt.Sprintf("observed status %d body %q, table says status %d body %q", status, body, ws, wb)
	}
	if marker != 0 {
		return "the response was written by the return value, yet the next handler still ran"
	}
	return ""
}

func describeValue(v reflect.Value) string {
	if !v.IsValid() {
		return "the invalid zero reflect.Value"
	}
	return "a " + v.Type().String()
}

func valueIface(v reflect.Value) interface{} {
	if !v.IsValid() {
		return nil
	}
	if (v.Kind() == reflect.Interface || v.Kind() == reflect.Ptr || v.Kind() == reflect.Slice) && v.IsNil() {
		return nil
	}
	return v.Interface()
}

func runC14(r *core.Run) {
	r.Rule("handlers built with reflect.MakeFunc for 12 return shapes (string, named string, []byte, *string, *[]byte, interface{}, error, (int,string), (int,[]byte), (int,error), (string,error), ([]byte,error)) x random values (arbitrary bytes, empty, statuses 100-599, nil / non-nil errors of three concrete types, nil pointers/slices/interfaces), placed after 0-2 silent handlers and followed by a marker handler; with and without an injected parameter (so that func() (int,string) runs through the built-in fast path and reflectively); the silent handlers may themselves return silent values; custom ReturnHandler in application scope, request scope, or mapped late in the request after earlier handlers have returned. Oracle: the statement's table as a function of the returned Go values. non-trivial = distinct (shape, value class, path, position, values)")
	r.Assume("non-nil zero-length values ([]byte{}, pointer to \"\") are observed but not judged (DESIGN §6)")
	c14Canaries(r)
	n := r.N(100000, 5000000)
	orig := flamego.Env()
	defer flamego.SetEnv(orig)
	for _, env := range []string{"development", "production", "test"} {
		env := env
		flamego.SetEnv(flamego.EnvType(env)) // the environment is process-global: one phase per environment
		r.Parallel("ret-"+env, n/3, func(w *core.W, rng *rand.Rand, i int) {
			c := genRetCase(rng)
			c.Env, c.Battery = env, rng.Intn(3) == 0
			c.AsAction = rng.Intn(8) == 0 && c.Custom != "request-late" && c.Custom != "self"
			if rng.Intn(5) == 0 {
				c.PreHdr = []string{"Location: /elsewhere", "Location: http://example.com/", "Status: 404 Not Found", "Refresh: 0; url=/x", "Content-Location: /y", "X-Accel-Redirect: /internal", "Content-Type: application/json", "Retry-After: 10", "WWW-Authenticate: Basic", "Content-Length: 0"}[rng.Intn(10)]
			}
			w.Begin("ret", c)
			judgeRet(w, c)
		})
	}
	flamego.SetEnv(orig)
	// every status code 100..599 through every (int, …) shape, fast path and reflective
	r.Parallel("status-sweep", 900, func(w *core.W, rng *rand.Rand, i int) {
		for _, shape := range []string{"int,string", "int,bytes", "int,error"} {
			for _, refl := range []bool{false, true} {
				c := &retCase{Shape: shape, Int: 100 + i, Str: core.B([]string{"", "b"}[i%2]), Reflect: refl, Pos: i % 3, Method: []string{"GET", "HEAD", "POST"}[i%3]}
				if shape == "int,error" && i%2 == 0 {
					c.Err, c.ErrMsg = "new", "e"
				}
				w.Begin("ret", c)
				w.Count("status-sweep")
				judgeRet(w, c)
			}
		}
	})
	r.GateCounter("status-sweep", 5000)
	r.GateCounter("long-text-returned", 1000)
	for _, s := range retShapes {
		if s == "*string" || s == "*bytes" {
			r.GateCounter("class:"+s+"/pointer", 50)
			continue
		}
		r.GateCounter("class:"+s+"/non-empty", 50)
	}
	for _, k := range []string{"class:string/zero", "class:named/zero", "class:bytes/nil", "class:*string/nil", "class:*bytes/nil", "class:iface/nil", "class:error/error", "class:error/zero", "class:int,error/error", "class:string,error/error", "class:bytes,error/error", "class:int,string/zero", "class:int,bytes/nil", "path:fast", "path:reflective", "custom:app", "custom:request", "custom:request-late", "silent-handlers-returned-values", "method:HEAD", "method:GET", "request-cancelled-by-returning-handler", "standard-library-error-value-returned", "handler-wrote-before-returning", "out-of-table-shape-with-custom-return-handler", "status>=600", "plain-writer-mapped-by-middleware", "custom:self", "built-in-middleware-in-front:development", "built-in-middleware-in-front:production", "built-in-middleware-in-front:test"} {
		r.GateCounter(k, 50)
	}
	r.Gate("distinct_nontrivial", r.NonTrivialCount(), 2000)
}

func c14Canaries(r *core.Run) {
	c := &retCase{Shape: "int,error", Int: 404, Err: "new", ErrMsg: "nope"}
	r.Canary("faithful passes", retVerdict(c, nil, 1, 0, 404, "nope", 0, 0, nil) == "")
	r.Canary("(int,error) ignores the int", retVerdict(c, nil, 1, 0, 500, "nope", 0, 0, nil) != "")
	c2 := &retCase{Shape: "error"}
	r.Canary("nil error written as 500", retVerdict(c2, nil, 1, 0, 500, "", 0, 0, nil) != "")
	r.Canary("nothing written but chain stopped", retVerdict(c2, nil, 1, 0, 0, "", 0, 0, nil) != "")
	c3 := &retCase{Shape: "string", Str: "x"}
	r.Canary("written but chain continued", retVerdict(c3, nil, 1, 0, 200, "x", 1, 0, nil) != "")
	c4 := &retCase{Shape: "string", Str: "x", Custom: "app"}
	r.Canary("custom handler ignored", retVerdict(c4, nil, 1, 0, 200, "x", 0, 0, nil) != "")
}
