package checks

import (
	"bytes"
	"encoding/json"
	"fmt"
	"io"
	"math/rand"
	"net/http"
	"net/url"
	"os"
	"path/filepath"
	"runtime"
	"sort"
	"strconv"
	"strings"
	"sync"
	"sync/atomic"
	"time"

	"github.com/charmbracelet/log"

	"github.com/flamego/flamego"
	"github.com/flamego/flamego/inject"
	"github.com/flamego/flamego/verifharness/core"
)

// c05Round is one concurrent round on one cold instance (replayable as a workload, not as a schedule).
type c05Round struct {
	Round      int `json:"round"`
	Goroutines int `json:"goroutines"`
	PerG       int `json:"requests_per_goroutine"`
	Repeat     int `json:"repeat,omitempty"`
}

func init() {
	register(&Check{ID: "C05", Run: runC05, Replay: func(w *core.W, kind string, raw json.RawMessage) {
		if kind == "hammer" {
			var hc hammerCase
			if json.Unmarshal(raw, &hc) == nil {
				prepareRaceLog()
				for i := 0; i < 5; i++ { // a schedule cannot be replayed: the workload is repeated
					w.Begin("hammer", &hc)
					if !judgeHammer(w, &hc) {
						break
					}
					hc.Seed++
				}
			}
			return
		}
		var c c05Round
		if err := json.Unmarshal(raw, &c); err != nil {
			w.R.Inconclusive("replay case does not decode: " + err.Error())
			return
		}
		prepareRaceLog()
		flamego.SetEnv(flamego.EnvTypeProd)
		if dir, err := os.MkdirTemp("", "verif-c05-"); err == nil {
			defer os.RemoveAll(dir)
			c05Fixture(dir)
		}
		st := &c05Stats{}
		n := c.Repeat
		if n == 0 {
			n = 20
		}
		for i := 0; i < n; i++ {
			runC05Round(w, &c, st, uint64(i))
		}
		if blocks, _ := collectRaceReports(); len(blocks) > 0 {
			w.Violate("data-race", &c, "race detector reports while re-running the round:\n"+blocks[0])
		}
	}})
}

type c05ReqVal struct{ Tok string }

// c05Opt is mapped application-wide and overridden in the request scope by only some requests.
type c05Opt struct{ V string }

// application-scoped service mapped by its concrete type and requested through an interface
// (the implementor search runs on the shared application injector while serving)
type c05Namer interface{ Name() string }
type c05Svc struct{ name string }

func (s *c05Svc) Name() string { return s.name }

type c05Req struct {
	Kind   string
	Tok    string
	Method string
	Path   string
	Two    string // value of the second constrained header (kind header2)
	Role   string // value of the third constrained header (kind header2)
}

var c05Kinds = []string{"static", "optional-short", "optional-long", "placeholder", "regex", "matchall-capture", "final-matchall", "header", "any", "panic", "notfound", "render-json", "render-xml", "render-text", "query-cookie", "static-file", "static-file-2", "grouped", "notfound-after-capture", "header2", "static-file-big", "silent", "redirect", "unknown-method", "static-dir-index", "head-autohead"}

// c05Dir holds the file served by the Static middleware of the shared instance.
var c05Dir string

// c05Fixture: two files with the same base name (different size) under one Static instance.
func c05Fixture(dir string) {
	_ = os.WriteFile(filepath.Join(dir, "hello.txt"), []byte("static file content, the same for everybody"), 0o644)
	_ = os.MkdirAll(filepath.Join(dir, "sub"), 0o755)
	_ = os.WriteFile(filepath.Join(dir, "sub", "hello.txt"), []byte("another file that merely has the same name"), 0o644)
	_ = os.WriteFile(filepath.Join(dir, "sub", "index.html"), []byte("<p>the index of sub</p>"), 0o644)
	big := make([]byte, 100000)
	for i := range big {
		big[i] = byte('a' + (i*7+i/251)%26)
	}
	_ = os.WriteFile(filepath.Join(dir, "big.bin"), big, 0o644)
	c05Dir = dir
}

func c05MakeReq(kind, tok string, rng *rand.Rand) c05Req {
	r := c05Req{Kind: kind, Tok: tok, Method: "GET"}
	// Half of the requests carry their unique token in the path as well; the other half use one of 400 path keys
	// that many requests share, so that anything the router remembers about a path is asked for again and again
	// (the unique token still travels in the header, the query, the cookie and the body).
	pt := tok
	if rng.Intn(2) == 0 {
		pt = fmt.Sprintf("k%03d", rng.Intn(400))
	}
	switch kind {
	case "static":
		r.Path = "/static/ping"
	case "optional-short":
		r.Path = "/opt"
	case "optional-long":
		r.Path = "/opt/tail"
	case "placeholder":
		r.Path = "/u/" + pt
	case "regex":
		r.Path = "/r/" + pt + "-42"
	case "matchall-capture":
		r.Path = "/m/" + pt + "/x/end"
	case "final-matchall":
		r.Path = "/f/" + pt + "/a/b/" + pt
	case "header":
		r.Path = "/h/" + pt
	case "any":
		r.Path = "/any/" + pt
		r.Method = []string{"GET", "POST", "PUT", "DELETE"}[rng.Intn(4)]
	case "panic":
		r.Path = "/panic/" + pt
	case "notfound":
		r.Path = "/nowhere/" + pt
	case "render-json":
		r.Path = "/j/" + pt
	case "render-xml":
		r.Path = "/x/" + pt
	case "render-text":
		r.Path = "/t/" + pt
	case "query-cookie":
		r.Path = "/qc/" + pt
	case "static-file":
		r.Path = "/assets/hello.txt"
	case "static-file-2":
		r.Path = "/assets/sub/hello.txt"
	case "static-file-big":
		r.Path = "/assets/big.bin"
	case "notfound-after-capture":
		r.Path = "/g1/" + pt + "/nope" // binds {tok} on the way, then finds nothing
	case "header2":
		// three constraints; different requests fail different ones (or none)
		r.Path = "/h2/" + pt
		r.Two = []string{"ok", "ok", "no", ""}[rng.Intn(4)]
		r.Role = []string{"admin", "admin", "guest"}[rng.Intn(3)]
	case "grouped":
		r.Path = "/g1/" + pt + "/g2/leaf"
	case "unknown-method":
		r.Path = "/u/" + pt
		r.Method = []string{"BREW", "PURGE", "get", "PROPFIND", "M-SEARCH", " GET"}[rng.Intn(6)] // a token no route was ever registered for
	case "static-dir-index":
		r.Path = "/assets/sub/" // served through the directory's index file
	case "head-autohead":
		r.Path = "/ah/" + pt
		r.Method = "HEAD"
	case "silent":
		r.Path = "/s/" + pt // the chain completes without writing anything
	case "redirect":
		r.Path = "/rd/" + pt
	}
	return r
}

type c05Sched struct {
	log       *c05Log // where the instance logs (nil: discarded)
	inflight  int64
	maxIn     int64
	overlaps  int64
	perKindIn map[string]*int64
	sameRoute int64
	meet      chan struct{}
	enabled   bool
	seed      uint64
	late      bool // set-up continues after the instance has served its first request: one more middleware is installed then
}

// perturb injects seeded yields / short sleeps / a pairwise rendezvous between
// reading the inputs and writing the response, so that requests overlap inside
// the framework's call-outs. Wall-clock only shapes the schedule, never a verdict.
func (s *c05Sched) perturb(tok string, phase int) {
	if !s.enabled {
		return
	}
	h := core.Hash64(tok, fmt.Sprint(phase, s.seed))
	switch h % 5 {
	case 0:
		for i := uint64(0); i < 1+h%7; i++ {
			runtime.Gosched()
		}
	case 1:
		time.Sleep(time.Duration(h%80) * time.Microsecond)
	case 2:
		select {
		case s.meet <- struct{}{}:
		case <-s.meet:
		case <-time.After(150 * time.Microsecond):
		}
	}
}

// c05Log collects what the request logger writes (goroutine-safe).
type c05Log struct {
	mu  sync.Mutex
	buf bytes.Buffer
}

func (l *c05Log) Write(p []byte) (int, error) {
	l.mu.Lock()
	defer l.mu.Unlock()
	return l.buf.Write(p)
}

func buildC05(s *c05Sched) *flamego.Flame {
	var logw io.Writer = io.Discard
	if s.log != nil {
		logw = s.log
	}
	f := flamego.NewWithLogger(logw)
	// the application scope has a parent of its own (services shared by several instances of one process): the
	// handlers' interface-typed parameter is resolved there, two scopes out from the request
	shared := inject.New()
	shared.Map(&c05Svc{name: "svc"})
	f.SetParent(shared)
	f.Map(c05Opt{V: "app-default"})
	f.Use(func(c flamego.Context) {
		n := atomic.AddInt64(&s.inflight, 1)
		for {
			m := atomic.LoadInt64(&s.maxIn)
			if n <= m || atomic.CompareAndSwapInt64(&s.maxIn, m, n) {
				break
			}
		}
		atomic.AddInt64(&s.overlaps, n-1)
		defer atomic.AddInt64(&s.inflight, -1)
		c.Next()
	})
	f.Before(func(http.ResponseWriter, *http.Request) bool { return false })
	// a request-scoped logger (the usual request-id pattern) is mapped before the request logger runs: every line
	// the request logger writes for a request carries that request's id
	if s.log != nil {
		// (only on instances whose log is collected: deriving a logger takes the logger's lock and staggers requests)
		f.Use(func(c flamego.Context, l *log.Logger) { c.Map(l.With("rid", c.Request().Header.Get("X-Tok"))) })
	}
	f.Use(flamego.Logger(), flamego.Recovery(), flamego.Renderer(flamego.RenderOptions{JSONIndent: " "}))
	f.Use(flamego.Static(flamego.StaticOptions{Directory: c05Dir, Prefix: "assets", SetETag: true, Expires: func() string { return "EXP" }}))
	f.Use(func(c flamego.Context) {
		tok := c.Request().Header.Get("X-Tok")
		c.Map(c05ReqVal{Tok: tok})
		if len(tok) > 0 && tok[len(tok)-1]%2 == 0 {
			// only some requests override the application-wide value and tag their response through a before-function
			c.Map(c05Opt{V: "req-" + tok})
			c.ResponseWriter().Before(func(rw flamego.ResponseWriter) { rw.Header().Set("X-Req-Tag", tok) })
		}
		s.perturb(tok, 0)
	})
	f.NotFound(func(c flamego.Context, v c05ReqVal) (int, string) {
		s.perturb(v.Tok, 3)
		return 404, "kind=notfound;hdr=" + c.Request().Header.Get("X-Tok") + ";inj=" + v.Tok + ";path=" + c.Request().URL.Path
	})
	echo := func(kind string) []flamego.Handler {
		pass := func(c flamego.Context) { // fast path, onion
			// the parameter map belongs to this request: a note left in it by an earlier handler is what a later
			// handler of the same request reads, and nobody else's
			c.Params()["scratch"] = "s" + c.Request().Header.Get("X-Tok")
			s.perturb(c.Request().Header.Get("X-Tok"), 1)
			c.Next()
		}
		final := func(c flamego.Context, v c05ReqVal, req *http.Request, w http.ResponseWriter, nm c05Namer, opt c05Opt) { // reflective path
			p := c.Params()
			body, _ := c.Request().Body().String()
			// a named route with an optional segment, built with and without it by different requests
			url2 := c.URLPath("opt")
			if len(v.Tok)%2 == 0 || strings.HasSuffix(v.Tok, "1") || strings.HasSuffix(v.Tok, "a") {
				url2 = c.URLPath("opt", "withOptional", "true")
			}
			out := fmt.Sprintf("kind=%s;tok=%s;hdr=%s;inj=%s;route=%s;url=%s;n=%s;rest=%s;body=%s;method=%s;svc=%s;url2=%s;opt=%s;scratch=%s;np=%d",
				kind, p["tok"], req.Header.Get("X-Tok"), v.Tok, c.Param("route"), c.URLPath("user", "tok", v.Tok), p["n"], p["rest"], body, req.Method, nm.Name(), url2, opt.V, strings.TrimPrefix(p["scratch"], "s"), len(p))
			s.perturb(v.Tok, 2)
			_, _ = w.Write([]byte(out))
		}
		return []flamego.Handler{pass, final}
	}
	f.Get("/static/ping", echo("static")...)
	f.Get("/opt/?tail", echo("optional")...).Name("opt")
	f.Get("/u/{tok}", echo("placeholder")...).Name("user")
	f.Get("/r/{tok: /[a-z0-9]+/}-{n: /[0-9]+/}", echo("regex")...)
	f.Get("/m/{rest: **, capture: 3}/end", echo("matchall-capture")...)
	f.Get("/f/{tok}/{rest: **}", echo("final-matchall")...)
	f.Get("/h/{tok}", echo("header")...).Headers("X-Tok", "^t")
	f.Get("/h2/{tok}", echo("header2")...).Headers("X-Tok", "^t", "X-Two", "^ok$", "X-Role", "^admin$")
	f.Any("/any/{tok}", echo("any")...)
	f.Get("/panic/{tok}", func(c flamego.Context) {
		s.perturb(c.Param("tok"), 1)
		panic("boom-" + c.Param("tok"))
	})
	f.Get("/x/{tok}", func(c flamego.Context, r flamego.Render, v c05ReqVal) {
		s.perturb(v.Tok, 1)
		r.XML(202, xmlItem{K: c.Param("tok"), V: v.Tok})
	})
	f.Get("/t/{tok}", func(c flamego.Context, r flamego.Render, v c05ReqVal) {
		s.perturb(v.Tok, 1)
		r.PlainText(203, "tok="+c.Param("tok")+";inj="+v.Tok)
	})
	f.Get("/qc/{tok}", func(c flamego.Context, v c05ReqVal) string {
		c.SetCookie(http.Cookie{Name: "sid", Value: v.Tok})
		s.perturb(v.Tok, 1)
		return fmt.Sprintf("q=%s;qi=%d;ck=%s;tok=%s;addr=%s", c.Query("tok"), c.QueryInt("n", 7), c.Cookie("sid"), c.Param("tok"), c.RemoteAddr())
	})
	f.Group("/g1/{tok}", func() {
		f.Group("/g2", func() {
			f.Combo("/leaf").Get(func(c flamego.Context, v c05ReqVal) string {
				s.perturb(v.Tok, 2)
				return "grouped;tok=" + c.Param("tok") + ";inj=" + v.Tok + ";route=" + c.Param("route")
			})
		}, func(c flamego.Context) { s.perturb(c.Param("tok"), 1) })
	}, func(c flamego.Context) { c.Next() })
	f.Get("/s/{tok}", func(c flamego.Context, v c05ReqVal) { s.perturb(v.Tok, 1) })
	// a response that takes seconds to stream (a download, server-sent events): whatever the built-in middleware does
	// on a timer or in the background while a request is still being answered happens during this one
	f.Get("/slow/{tok}", func(c flamego.Context, v c05ReqVal) {
		n, _ := strconv.Atoi(c.Request().Header.Get("X-Chunks"))
		for i := 0; i < n; i++ {
			_, _ = c.ResponseWriter().Write([]byte(fmt.Sprintf("c%d;", i)))
			c.ResponseWriter().Flush()
			time.Sleep(90 * time.Millisecond)
		}
	})
	f.AutoHead(true)
	f.Get("/ah/{tok}", echo("head-autohead")...)
	f.AutoHead(false)
	f.Get("/rd/{tok}", func(c flamego.Context, v c05ReqVal) {
		s.perturb(v.Tok, 1)
		c.Redirect("/u/"+c.Param("tok")+"?inj="+v.Tok, http.StatusSeeOther)
	})
	f.Get("/j/{tok}", func(c flamego.Context, r flamego.Render, v c05ReqVal) {
		s.perturb(v.Tok, 1)
		r.JSON(201, map[string]string{"tok": c.Param("tok"), "inj": v.Tok, "route": c.Param("route")})
	})
	if s.late {
		// an application that goes on being assembled after it has answered a request (a health probe during start-up):
		// one request is served, then one more middleware is installed - all of it before the concurrent phase begins
		was := s.enabled
		s.enabled = false
		_ = c05Serve(f, c05Req{Kind: "static", Tok: "warmup-probe", Method: "GET", Path: "/static/ping"})
		s.enabled = was
		f.Use(func(c flamego.Context) { c.Next() })
	}
	return f
}

type c05Resp struct {
	status int
	body   string
	ctype  string
	pan    interface{}
}

func c05Serve(f *flamego.Flame, rq c05Req) c05Resp {
	spy := &retSpy{h: http.Header{}}
	req := &http.Request{Method: rq.Method, URL: &url.URL{Path: rq.Path, RawQuery: "tok=" + rq.Tok + "&n=12"}, Header: http.Header{"X-Tok": {rq.Tok}, "Cookie": {"sid=" + rq.Tok}, "X-Real-Ip": {rq.Tok}}, RequestURI: rq.Path, Body: io.NopCloser(strings.NewReader("B" + rq.Tok))}
	if rq.Kind == "header2" {
		req.Header.Set("X-Two", rq.Two)
		req.Header.Set("X-Role", rq.Role)
	}
	var out c05Resp
	func() {
		defer func() { out.pan = recover() }()
		f.ServeHTTP(spy, req)
	}()
	out.status, out.body, out.ctype = spy.status, string(spy.body), spy.h.Get("Content-Type")+"|loc="+spy.h.Get("Location")+"|tag="+strings.Join(spy.h.Values("X-Req-Tag"), ",")+"|etag="+spy.h.Get("ETag")
	return out
}

// c05Field extracts key=value from a log line ("" if absent).
func c05Field(line, key string) string {
	i := strings.Index(line, " "+key+"=")
	if i < 0 {
		return ""
	}
	v := line[i+len(key)+2:]
	if j := strings.IndexAny(v, " \t"); j >= 0 {
		v = v[:j]
	}
	return strings.Trim(v, "\"")
}

// c05Foreign reports a token in the response that is not the request's own.
func c05Foreign(body, own string) string {
	for i := 0; i+1 < len(body); i++ {
		if body[i] != 't' || body[i+1] < '0' || body[i+1] > '9' {
			continue
		}
		if i > 0 && (body[i-1] >= 'a' && body[i-1] <= 'z') {
			continue
		}
		j := i + 1
		for j < len(body) && (body[j] >= '0' && body[j] <= '9' || body[j] == 'x' || (body[j] >= 'a' && body[j] <= 'f')) {
			j++
		}
		if tok := body[i:j]; tok != own && strings.HasPrefix(tok, "t") && len(tok) >= 6 {
			return tok
		}
	}
	return ""
}

type c05Stats struct {
	requests, overlaps, sameRoute int64
	maxIn                         int64
	coldKinds                     map[string]int
	mu                            sync.Mutex
}

func runC05Round(w *core.W, c *c05Round, st *c05Stats, salt uint64) bool {
	rng := w.R.Rand("round", c.Round)
	total := c.Goroutines * c.PerG
	reqs := make([]c05Req, total)
	// few routes per round so that requests collide on the same route
	kinds := append([]string(nil), c05Kinds...)
	rng.Shuffle(len(kinds), func(i, j int) { kinds[i], kinds[j] = kinds[j], kinds[i] })
	hot := kinds[:3+rng.Intn(4)]
	for i := range reqs {
		tok := fmt.Sprintf("t%dx%05x", c.Round%10, i)
		k := hot[rng.Intn(len(hot))]
		if i < c.Goroutines { // first wave: every kind is hit while the instance is cold, by several goroutines
			k = c05Kinds[i%len(c05Kinds)]
		}
		reqs[i] = c05MakeReq(k, tok, rng)
	}
	// serial twin first
	late := c.Round%4 == 2
	twin := buildC05(&c05Sched{late: late})
	want := make([]c05Resp, total)
	for i, rq := range reqs {
		want[i] = c05Serve(twin, rq)
		if want[i].pan != nil {
			w.Violate("serial-twin", c, fmt.Sprintf("serial twin: %s %s panicked: %v", rq.Method, rq.Path, want[i].pan))
			return false
		}
		if f := c05Foreign(want[i].body, rq.Tok); f != "" {
			w.Violate("serial-twin", c, fmt.Sprintf("serial twin: %s %s echoes a foreign token %q: %q", rq.Method, rq.Path, f, want[i].body))
			return false
		}
	}
	// "served alone" in the strict sense, for the cold wave and a sample of the rest: a fresh instance per request
	for i, rq := range reqs {
		if i >= c.Goroutines && i%32 != 0 {
			continue
		}
		alone := c05Serve(buildC05(&c05Sched{late: late}), rq)
		w.Count("compared-with-a-fresh-instance")
		if alone.status != want[i].status || alone.body != want[i].body || alone.ctype != want[i].ctype {
			w.Violate("isolation", c, fmt.Sprintf("%s %s: the response on an instance that has served other requests before (serially) differs from the response of the same request served alone on a fresh instance\n after others: %d %q %q\n alone:        %d %q %q", rq.Method, rq.Path, want[i].status, want[i].body, want[i].ctype, alone.status, alone.body, alone.ctype))
			return false
		}
	}
	// cold instance, concurrent
	sched := &c05Sched{enabled: true, meet: make(chan struct{}), seed: uint64(w.R.Seed) + salt, late: late}
	if late {
		w.Count("instances-whose-set-up-continued-after-the-first-request")
	}
	if c.Round%2 == 1 {
		// collecting (and formatting) log lines serializes the requests early in the chain and staggers the cold wave;
		// every other round logs to io.Discard so that requests reach the router truly at once
		sched.log = &c05Log{}
	}
	cold := buildC05(sched)
	got := make([]c05Resp, total)
	var wg sync.WaitGroup
	start := make(chan struct{})
	var arrived int64
	for g := 0; g < c.Goroutines; g++ {
		wg.Add(1)
		go func(g int) {
			defer wg.Done()
			<-start
			// a spin barrier on top of the channel: the cold wave reaches the router within nanoseconds, not
			// within the microseconds it takes the scheduler to wake goroutines one by one
			atomic.AddInt64(&arrived, 1)
			for atomic.LoadInt64(&arrived) < int64(c.Goroutines) {
				runtime.Gosched()
			}
			for k := 0; k < c.PerG; k++ {
				i := k*c.Goroutines + g // goroutine g owns every Goroutines-th request; wave k=0 is the cold wave
				got[i] = c05Serve(cold, reqs[i])
			}
		}(g)
	}
	var slow c05Resp
	slowChunks := 0
	if c.Round == 0 && salt == 0 {
		slowChunks = 30 // 2.7 s
		if w.R.Thorough() {
			slowChunks = 125 // 11 s
		}
		wg.Add(1)
		go func() {
			defer wg.Done()
			<-start
			spy := &retSpy{h: http.Header{}}
			req := &http.Request{Method: "GET", URL: &url.URL{Path: "/slow/t9x99999"}, Header: http.Header{"X-Tok": {"t9x99999"}, "X-Chunks": {fmt.Sprint(slowChunks)}}, RequestURI: "/slow/t9x99999", Body: io.NopCloser(strings.NewReader(""))}
			func() {
				defer func() { slow.pan = recover() }()
				cold.ServeHTTP(spy, req)
			}()
			slow.status, slow.body = spy.status, string(spy.body)
		}()
	}
	close(start)
	wg.Wait()
	if slowChunks > 0 {
		var want strings.Builder
		for i := 0; i < slowChunks; i++ {
			fmt.Fprintf(&want, "c%d;", i)
		}
		w.Count("slow-streaming-responses")
		if slow.pan != nil || slow.status != 200 || slow.body != want.String() {
			w.Violate("isolation", c, fmt.Sprintf("the response streamed over %d chunks while the round ran: panic=%v status=%d body=%q", slowChunks, slow.pan, slow.status, clip(slow.body)))
			return false
		}
	}
	st.mu.Lock()
	st.requests += int64(total)
	st.overlaps += atomic.LoadInt64(&sched.overlaps)
	if m := atomic.LoadInt64(&sched.maxIn); m > st.maxIn {
		st.maxIn = m
	}
	if st.coldKinds == nil {
		st.coldKinds = map[string]int{}
	}
	for i := 0; i < c.Goroutines && i < total; i++ {
		st.coldKinds[reqs[i].Kind]++
	}
	st.mu.Unlock()
	// the request logger's lines: the id mapped for the request and the request's own address agree
	var lines []string
	if sched.log != nil {
		sched.log.mu.Lock()
		lines = strings.Split(sched.log.buf.String(), "\n")
		sched.log.mu.Unlock()
	}
	nLines := 0
	for _, ln := range lines {
		rid, remote := c05Field(ln, "rid"), c05Field(ln, "remote")
		if rid == "" || remote == "" {
			continue
		}
		nLines++
		if rid != remote {
			w.Violate("isolation", c, fmt.Sprintf("the request logger wrote a line for the request of %s that carries the request-scoped logger of another request (rid=%s): %q", remote, rid, ln))
			return false
		}
	}
	w.CountN("request-logger-lines-checked", nLines)
	for i, rq := range reqs {
		w.Eval()
		g := got[i]
		if g.pan != nil {
			w.Violate("isolation", c, fmt.Sprintf("concurrent %s %s panicked: %v", rq.Method, rq.Path, g.pan))
			return false
		}
		if f := c05Foreign(g.body, rq.Tok); f != "" {
			w.Violate("isolation", c, fmt.Sprintf("%s %s (token %s) observed a value of another request (%s): %q", rq.Method, rq.Path, rq.Tok, f, g.body))
			return false
		}
		if g.status != want[i].status || g.body != want[i].body || g.ctype != want[i].ctype {
			w.Violate("isolation", c, fmt.Sprintf("%s %s: concurrent response differs from the response of the same request served alone\n concurrent: %d %q %q\n alone:      %d %q %q", rq.Method, rq.Path, g.status, g.body, g.ctype, want[i].status, want[i].body, want[i].ctype))
			return false
		}
		w.Count("kind:" + rq.Kind)
	}
	w.NonTrivial(core.Hash64("round", fmt.Sprint(c.Round, salt)), func() interface{} {
		return map[string]interface{}{"round": c, "hot_route_kinds": hot, "sample_request": reqs[total-1], "sample_response": got[total-1].body, "max_in_flight": atomic.LoadInt64(&sched.maxIn)}
	})
	return true
}

// ---- race detector log ----------------------------------------------------------------

func raceLogPath() string {
	for _, f := range strings.Fields(os.Getenv("GORACE")) {
		if strings.HasPrefix(f, "log_path=") {
			return strings.TrimPrefix(f, "log_path=")
		}
	}
	return ""
}

func prepareRaceLog() {
	if p := raceLogPath(); p != "" {
		old, _ := filepath.Glob(p + ".*")
		for _, f := range old {
			_ = os.Remove(f)
		}
	}
}

// collectRaceReports returns the race report blocks and the subset involving framework state.
func collectRaceReports() (flamegoBlocks []string, other int) {
	p := raceLogPath()
	if p == "" {
		return nil, 0
	}
	files, _ := filepath.Glob(p + ".*")
	for _, f := range files {
		b, err := os.ReadFile(f)
		if err != nil {
			continue
		}
		for _, blk := range strings.Split(string(b), "==================") {
			if !strings.Contains(blk, "WARNING: DATA RACE") {
				continue
			}
			if raceBlockIsFlamego(blk) {
				flamegoBlocks = append(flamegoBlocks, strings.TrimSpace(blk))
			} else {
				other++
			}
		}
	}
	return
}

func raceBlockIsFlamego(blk string) bool {
	for _, line := range strings.Split(blk, "\n") {
		l := strings.TrimSpace(line)
		if strings.HasPrefix(l, "github.com/flamego/flamego") && !strings.HasPrefix(l, "github.com/flamego/flamego/verifharness") {
			return true
		}
	}
	return false
}

// raceDedupKey: outermost framework frame pair, line numbers stripped.
func raceDedupKey(blk string) string {
	var frames []string
	for _, line := range strings.Split(blk, "\n") {
		l := strings.TrimSpace(line)
		if strings.HasPrefix(l, "github.com/flamego/flamego") && !strings.HasPrefix(l, "github.com/flamego/flamego/verifharness") {
			if i := strings.Index(l, "("); i > 0 {
				l = l[:i]
			}
			frames = append(frames, l)
		}
	}
	sort.Strings(frames)
	if len(frames) > 4 {
		frames = frames[:4]
	}
	return strings.Join(frames, "|")
}

// hammerCase: few keys, many goroutines, very many requests on ONE instance with minimal handlers: every
// response describes the request it answers (route text and parameters), so each is judged on its own, without
// a twin. This is where anything the router remembers between requests gets hit at a high rate.
type hammerCase struct {
	Goroutines int    `json:"goroutines"`
	PerG       int    `json:"requests_per_goroutine"`
	Keys       int    `json:"distinct_keys"`
	Seed       uint64 `json:"seed"`
}

func hammerExpect(kind int, k int) (path, want string) {
	switch kind {
	case 0:
		return fmt.Sprintf("/user/u%d/posts/%d", k, k), fmt.Sprintf("user u%d %d route=/user/{id}/posts/{n}", k, k)
	case 1:
		return fmt.Sprintf("/item/i%d", k), fmt.Sprintf("item i%d route=/item/{id}", k)
	case 2:
		return fmt.Sprintf("/files/d%d/e%d/raw", k, k), fmt.Sprintf("files d%d/e%d route=/files/{path: **}/raw", k, k)
	case 3:
		return fmt.Sprintf("/v/%d-x%d", k, k), fmt.Sprintf("ver %d x%d route=/v/{a: /[0-9]+/}-{b}", k, k)
	default:
		return fmt.Sprintf("/missing/m%d", k), "nf"
	}
}

func judgeHammer(w *core.W, c *hammerCase) bool {
	f := flamego.NewWithLogger(io.Discard)
	f.NotFound(func() (int, string) { return 404, "nf" })
	f.Get("/user/{id}/posts/{n}", func(x flamego.Context) string {
		return "user " + x.Param("id") + " " + x.Param("n") + " route=" + x.Param("route")
	})
	f.Get("/item/{id}", func(x flamego.Context) string { return "item " + x.Param("id") + " route=" + x.Param("route") })
	f.Get("/files/{path: **}/raw", func(x flamego.Context) string { return "files " + x.Param("path") + " route=" + x.Param("route") })
	f.Get("/v/{a: /[0-9]+/}-{b}", func(x flamego.Context) string {
		return "ver " + x.Param("a") + " " + x.Param("b") + " route=" + x.Param("route")
	})
	var bad atomic.Value
	var nbad int64
	var wg sync.WaitGroup
	for g := 0; g < c.Goroutines; g++ {
		wg.Add(1)
		go func(g int) {
			defer wg.Done()
			x := c.Seed + uint64(g)*0x9E3779B97F4A7C15
			for i := 0; i < c.PerG; i++ {
				x ^= x << 13
				x ^= x >> 7
				x ^= x << 17
				path, want := hammerExpect(int(x%5), int((x>>8)%uint64(c.Keys)))
				spy := &retSpy{h: http.Header{}}
				f.ServeHTTP(spy, &http.Request{Method: "GET", URL: &url.URL{Path: path}, Header: http.Header{}, RequestURI: path})
				if got := string(spy.body); got != want {
					if atomic.AddInt64(&nbad, 1) == 1 {
						bad.Store(fmt.Sprintf("GET %s answered %q, want %q", path, got, want))
					}
				}
			}
		}(g)
	}
	wg.Wait()
	w.CountN("hammer-requests", c.Goroutines*c.PerG)
	w.EvalN(c.Goroutines * c.PerG)
	if n := atomic.LoadInt64(&nbad); n > 0 {
		w.Violate("isolation", c, fmt.Sprintf("%d of %d concurrent requests on one instance were answered for another request; first: %s", n, c.Goroutines*c.PerG, bad.Load()))
		return false
	}
	return true
}

func runC05(r *core.Run) {
	r.Rule("per round one COLD instance (lazy caches unfilled) with routes of every kind (static shortcut, optional static short/long, placeholder, multi-bind regex, match-all with capture, final match-all, header-constrained, Any, named route used for URL building, JSON rendering, a panicking route behind Recovery, a route whose chain writes nothing, a redirecting route, a response streamed over 2.7 s (thorough: 11 s) while the first round runs, a GET route with its automatic HEAD twin, a directory served through its index file, requests with method tokens no route was registered for, custom not-found chain) and Logger+Recovery+Renderer middleware; 84-168 goroutines behind a barrier, the first wave hits every route kind while cold, then few hot routes; every request carries a unique token in a header, the query, a cookie and the body, half of them also in the path - the other half use one of 400 shared path keys, so that paths repeat; an early middleware maps a request-scoped value; handlers reached through Next (fast path) and reflectively echo parameters, `route`, the injected value, a built URL and the body, with seeded yields / sleeps / pairwise rendezvous between reading and writing. Oracles: (1) Go race detector, report blocks with a framework frame counted from the log; (2) byte-for-byte equality (status, body, Content-Type, ETag, response tags) with an identically built instance that served the same requests serially, which in turn equals - for the cold wave and every 32nd request - a fresh instance that serves nothing else; (3) no foreign token in any response; (4) every line the request logger writes carries the request-scoped logger (request id) of the request it is about. Then one hammer instance: 32 goroutines x 60 000 / 300 000 requests over 700 keys and five route kinds with minimal self-describing handlers (each response names the route and parameters of the request it answers). non-trivial = distinct concurrent rounds")
	r.Assume("happens-before race detection is timing independent for accesses that occur; the shadow history is bounded (4 accesses per word)")
	r.Race = raceEnabled
	if !raceEnabled {
		r.Inconclusive("vcheck was not built with -race (use ./check C05 …)")
		return
	}
	if raceLogPath() == "" {
		r.Inconclusive("GORACE log_path not set (use ./check C05 …)")
		return
	}
	prepareRaceLog()
	c05Canaries(r)
	dir, derr := os.MkdirTemp("", "verif-c05-")
	if derr != nil {
		r.Inconclusive("cannot create the fixture directory: " + derr.Error())
		return
	}
	defer os.RemoveAll(dir)
	c05Fixture(dir)
	orig := flamego.Env()
	flamego.SetEnv(flamego.EnvTypeProd)
	defer flamego.SetEnv(orig)

	rounds := r.N(30, 300)
	gor, per := 8*len(c05Kinds), 14 // the first wave hits every kind while cold from eight goroutines at once
	if r.Thorough() {
		gor, per = 8*len(c05Kinds), 55
	}
	st := &c05Stats{}
	w := r.Serial()
	defer runtime.GOMAXPROCS(runtime.GOMAXPROCS(0))
	for i := 0; i < rounds; i++ {
		// vary the parallelism: few Ps force preemption inside handlers, many Ps give true simultaneity
		runtime.GOMAXPROCS([]int{runtime.NumCPU(), 4, 2, runtime.NumCPU(), 8}[i%5])
		c := &c05Round{Round: i, Goroutines: gor, PerG: per}
		w.Begin("concurrent-round", c)
		r.Pending("concurrent-round", c)
		if !runC05Round(w, c, st, 0) {
			break
		}
		if blocks, _ := collectRaceReports(); len(blocks) > 0 {
			break // stop early, report below
		}
	}
	if r.Violations() == 0 {
		perG := 60000
		if r.Thorough() {
			perG = 300000
		}
		hc := &hammerCase{Goroutines: 32, PerG: perG, Keys: 700, Seed: uint64(r.Seed)*7919 + 1}
		runtime.GOMAXPROCS(runtime.NumCPU())
		w.Begin("hammer", hc)
		r.Pending("hammer", hc)
		judgeHammer(w, hc)
	}
	r.ClearPending()
	w.Done()
	w.Merge()
	if r.Violations() == 0 {
		r.GateCounter("hammer-requests", 1500000)
		r.GateCounter("slow-streaming-responses", 1)
	}
	blocks, other := collectRaceReports()
	keys := map[string]int{}
	for _, b := range blocks {
		keys[raceDedupKey(b)]++
	}
	r.Extra("race_report_blocks_with_framework_frames", len(blocks))
	r.Extra("race_report_blocks_without_framework_frames", other)
	r.Extra("race_dedup_keys", keys)
	r.Extra("max_in_flight", st.maxIn)
	r.Extra("overlapping_request_pairs", st.overlaps)
	r.Extra("cold_instances", rounds)
	r.Extra("cold_first_wave_hits_per_kind", st.coldKinds)
	if len(blocks) > 0 {
		shown := map[string]bool{}
		for _, b := range blocks {
			k := raceDedupKey(b)
			if shown[k] {
				continue
			}
			shown[k] = true
			w2 := r.Serial()
			c := &c05Round{Round: 0, Goroutines: gor, PerG: per}
			w2.Begin("concurrent-round", c)
			w2.Violate("data-race", c, fmt.Sprintf("race detector report involving framework state (%d blocks, %d distinct):\n%s", len(blocks), len(keys), clipN(b, 2500)))
		}
	}
	r.Gate("overlapping request pairs", st.overlaps, 1000)
	r.Gate("max in-flight requests", st.maxIn, 8)
	r.GateCounter("request-logger-lines-checked", int64(rounds)*40)
	r.GateCounter("compared-with-a-fresh-instance", int64(rounds)*10)
	for _, k := range c05Kinds {
		r.Gate("cold first-wave hits:"+k, int64(st.coldKinds[k]), 2*int64(rounds))
		r.GateCounter("kind:"+k, 1)
	}
	r.Gate("distinct_nontrivial", r.NonTrivialCount(), 2)
}

func clipN(s string, n int) string {
	if len(s) > n {
		return s[:n] + "…"
	}
	return s
}

func c05Canaries(r *core.Run) {
	r.Canary("foreign token detected", c05Foreign("kind=x;tok=t1x00001;hdr=t1x00002", "t1x00001") == "t1x00002")
	r.Canary("own token accepted", c05Foreign("kind=x;tok=t1x00001;hdr=t1x00001;route=/u/{tok}", "t1x00001") == "")
	blk := "WARNING: DATA RACE\nWrite at 0x00c0 by goroutine 8:\n  github.com/flamego/flamego/internal/route.(*Route).String()\n      /repo/internal/route/definition.go:121 +0x64\n"
	r.Canary("framework race block recognised", raceBlockIsFlamego(blk))
	r.Canary("harness-only block not attributed", !raceBlockIsFlamego("WARNING: DATA RACE\n  github.com/flamego/flamego/verifharness/checks.foo()\n"))
}
