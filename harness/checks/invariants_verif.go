//go:build verif

package checks

import (
	"fmt"
	"strings"

	"github.com/flamego/flamego"
	"github.com/flamego/flamego/internal/route"
)

const hooksCompiled = true

// treeInvariants asserts the structural invariants of a route tree at a
// quiescent point (registration is single-threaded). "" = all hold.
func treeInvariants(t route.Tree) string {
	return nodeInvariants(route.VerifDump(t), nil, nil, 0, "")
}

func flameTreeInvariants(f *flamego.Flame, method string) string {
	n := flamego.VerifTreeDump(f, method)
	if n == nil {
		return ""
	}
	return nodeInvariants(n, nil, nil, 0, "")
}

func nodeInvariants(n, parent *route.VerifNode, pathBinds []string, alls int, prefix string) string {
	prefix += n.Seg
	if !n.ParentOK {
		return fmt.Sprintf("node %q: parent link inconsistent", n.Seg)
	}
	if strings.HasPrefix(n.Seg, "/?") {
		return fmt.Sprintf("node %q: optional subtree", n.Seg)
	}
	binds := append(append([]string{}, pathBinds...), n.Binds...)
	if d := firstDup(binds); d != "" {
		return fmt.Sprintf("node %q: bind %q occurs twice on the path from the root", n.Seg, d)
	}
	if n.Style == 4 {
		alls++
		if alls > 1 {
			return fmt.Sprintf("node %q: second match-all subtree on one path", n.Seg)
		}
	}
	seen := map[string]bool{}
	for i, c := range n.Children {
		if i > 0 && n.Children[i-1].Style > c.Style {
			return fmt.Sprintf("node %q: subtrees not ordered by rank (%q before %q)", n.Seg, n.Children[i-1].Seg, c.Seg)
		}
		if c.Style == 4 && i != len(n.Children)-1 {
			return fmt.Sprintf("node %q: match-all subtree %q is not last", n.Seg, c.Seg)
		}
		if seen[c.Seg] {
			return fmt.Sprintf("node %q: two subtrees with segment %q", n.Seg, c.Seg)
		}
		seen[c.Seg] = true
	}
	seenL := map[string]bool{}
	nAll := 0
	for i, l := range n.Leaves {
		if !l.ParentOK {
			return fmt.Sprintf("leaf %q of %q: parent link inconsistent", l.Seg, n.Seg)
		}
		if i > 0 && n.Leaves[i-1].Style > l.Style {
			return fmt.Sprintf("node %q: leaves not ordered by rank (%q before %q)", n.Seg, n.Leaves[i-1].Seg, l.Seg)
		}
		if l.Style == 4 {
			nAll++
			if i != len(n.Leaves)-1 || nAll > 1 {
				return fmt.Sprintf("node %q: match-all leaf %q is not the single last leaf", n.Seg, l.Seg)
			}
		}
		if seenL[l.Seg] {
			return fmt.Sprintf("node %q: two leaves with segment %q", n.Seg, l.Seg)
		}
		seenL[l.Seg] = true
		// a leaf hangs where its own route text says: the segments on the path
		// from the root spell the route (the short form of an optional route
		// stops one segment early)
		if full := prefix + l.Seg; l.Route != full && !strings.HasPrefix(l.Route, full+"/?") && !(full == "/" && strings.HasPrefix(l.Route, "/?")) {
			return fmt.Sprintf("leaf %q of route %q is filed under %q", l.Seg, l.Route, prefix)
		}
		if d := firstDup(append(append([]string{}, binds...), l.Binds...)); d != "" {
			return fmt.Sprintf("leaf %q (route %q): bind %q occurs twice on the path from the root", l.Seg, l.Route, d)
		}
		if l.Optional {
			// the short form of the same route must be a leaf one level up
			host, want := parent, n.Seg
			if parent == nil {
				host, want = n, "/"
			}
			found := false
			for _, s := range host.Leaves {
				if s.Route == l.Route && s.Seg == want && !s.Optional {
					found = true
				}
			}
			if !found {
				return fmt.Sprintf("optional leaf %q (route %q) has no short-form leaf %q one level up", l.Seg, l.Route, want)
			}
		}
	}
	for _, c := range n.Children {
		if msg := nodeInvariants(c, n, binds, alls, prefix); msg != "" {
			return msg
		}
	}
	return ""
}

func firstDup(ss []string) string {
	seen := map[string]bool{}
	for _, s := range ss {
		if seen[s] {
			return s
		}
		seen[s] = true
	}
	return ""
}

// staticTableInvariant enumerates the whole shortcut table and compares every
// entry with full tree matching on the router's own tree.
func staticTableInvariant(f *flamego.Flame) (entries int, msg string) {
	tbl := flamego.VerifStaticTable(f)
	for _, e := range tbl {
		if !e.Static {
			return len(tbl), fmt.Sprintf("shortcut entry %s %q: leaf is not static", e.Method, e.Key)
		}
		if e.HasHeader {
			return len(tbl), fmt.Sprintf("shortcut entry %s %q: leaf carries header constraints", e.Method, e.Key)
		}
		rt, _, id, ok := flamego.VerifTreeMatch(f, e.Method, e.Key, nil)
		if !ok {
			return len(tbl), fmt.Sprintf("shortcut entry %s %q (route %q): tree matching finds nothing for that path", e.Method, e.Key, e.Route)
		}
		if id != e.LeafID {
			return len(tbl), fmt.Sprintf("shortcut entry %s %q (route %q): tree matching yields a different leaf (route %q)", e.Method, e.Key, e.Route, rt)
		}
	}
	return len(tbl), ""
}
