package checks

import (
	"encoding/json"
	"fmt"
	"io"
	"math/rand"
	"net/http"
	"net/http/httptest"
	"net/url"
	"runtime"
	"strings"

	"github.com/flamego/flamego"
	"github.com/flamego/flamego/internal/route"
	"github.com/flamego/flamego/verifharness/core"
	"github.com/flamego/flamego/verifharness/gen"
	"github.com/flamego/flamego/verifharness/rmodel"
)

// regCase is a registration history (C08).
type regCase struct {
	Level string    `json:"level"` // "tree" | "flame"
	Mode  string    `json:"mode"`  // "restart": tree rebuilt from accepted routes after a refusal; "continue": same tree keeps being used
	Steps []regStep `json:"steps"`
	Note  string    `json:"note,omitempty"`
}

type regStep struct {
	Method string `json:"method,omitempty"`
	Route  core.B `json:"route"`
	Intent string `json:"intent,omitempty"`                       // generator's intent (statistics only; never used by the oracle)
	Hdr    bool   `json:"headers_after_registration,omitempty"`   // Flame level: once accepted, the route is given a header constraint (which changes nothing about what is a duplicate of what)
	Arg    string `json:"routes_extra_method_argument,omitempty"` // Flame level: registered with Routes(text, Method, Arg, handler): Method is a comma list whose items are trimmed, Arg is one more method name given as it is
	Split  int    `json:"group_split,omitempty"`                  // Flame level: >0 = the text is declared as Group(text[:Split]) { Route(text[Split:]) }; the registered route is the plain concatenation
}

var routerMethods = []string{"GET", "POST", "PUT", "DELETE", "PATCH", "OPTIONS", "HEAD", "CONNECT", "TRACE"}

func init() {
	register(&Check{ID: "C08", Run: runC08, Replay: func(w *core.W, kind string, raw json.RawMessage) {
		var c regCase
		if err := json.Unmarshal(raw, &c); err != nil {
			w.R.Inconclusive("replay case does not decode: " + err.Error())
			return
		}
		w.Begin("history", &c)
		judgeRegCase(w, &c)
	}})
}

var badExprs = []string{`a)(b`, `[a`, `(`, `*a`, `a{2,1}`, `a\`, `)`, `(a|b`, `[z-a]`, `+`, `a**`}

// mutateIllFormed turns a well-formed derivation into one that belongs to a
// given rejection category (relative to what is registered so far).
func mutateIllFormed(rng *rand.Rand, rt *rmodel.Route, prior []*rmodel.Route) (out *rmodel.Route, text string, intent string) {
	cp := &rmodel.Route{}
	for _, s := range rt.Segs {
		ns := rmodel.Segment{Optional: s.Optional}
		for _, e := range s.Elems {
			ne := rmodel.Elem{Lit: e.Lit, Bind: e.Bind, Params: append([]rmodel.Param(nil), e.Params...)}
			ns.Elems = append(ns.Elems, ne)
		}
		cp.Segs = append(cp.Segs, ns)
	}
	n := len(cp.Segs)
	lit := func(s string) rmodel.Segment { return rmodel.Segment{Elems: []rmodel.Elem{{Lit: s}}} }
	switch rng.Intn(11) {
	case 0: // non-final optional
		cp.Segs = append(cp.Segs, lit("t"))
		cp.Segs[rng.Intn(n)].Optional = true
		return cp, cp.Render(), "non-final optional"
	case 1: // empty inner segment
		i := rng.Intn(n)
		cp.Segs = append(cp.Segs[:i+1], cp.Segs[i:]...)
		cp.Segs[i] = rmodel.Segment{}
		return cp, cp.Render(), "empty inner segment"
	case 2: // bind reused across segments
		b := gen.Binds[rng.Intn(len(gen.Binds))]
		cp.Segs = append([]rmodel.Segment{{Elems: []rmodel.Elem{{Bind: b}}}}, cp.Segs...)
		switch rng.Intn(3) {
		case 0:
			cp.Segs = append(cp.Segs[:len(cp.Segs)-1], rmodel.Segment{Elems: []rmodel.Elem{{Bind: b}}})
		case 1:
			cp.Segs = append(cp.Segs, rmodel.Segment{Elems: []rmodel.Elem{{Params: []rmodel.Param{{Name: b, Value: "**", Blanks: 1}}}}})
		default:
			cp.Segs = append(cp.Segs, rmodel.Segment{Elems: []rmodel.Elem{{Lit: "v"}, {Params: []rmodel.Param{{Name: b, Value: "[0-9]+", IsRegex: true, Blanks: 1}}}}})
		}
		return cp, cp.Render(), "bind reused across segments"
	case 3: // bind reused inside one segment
		b := gen.Binds[rng.Intn(len(gen.Binds))]
		var seg rmodel.Segment
		if rng.Intn(2) == 0 {
			seg = rmodel.Segment{Elems: []rmodel.Elem{{Bind: b}, {Lit: "-"}, {Bind: b}}}
		} else {
			seg = rmodel.Segment{Elems: []rmodel.Elem{{Params: []rmodel.Param{{Name: b, Value: "[a-z]+", IsRegex: true, Blanks: 1}, {Name: b, Value: "[0-9]+", IsRegex: true, Blanks: 1, Lead: 1}}}}}
		}
		i := rng.Intn(n + 1)
		cp.Segs = append(cp.Segs[:i], append([]rmodel.Segment{seg}, cp.Segs[i:]...)...)
		if i < len(cp.Segs)-1 {
			cp.Segs[i].Optional = false
		}
		return cp, cp.Render(), "bind reused inside a segment"
	case 4: // two non-final match-alls
		a := rmodel.Segment{Elems: []rmodel.Elem{{Params: []rmodel.Param{{Name: "m", Value: "**", Blanks: 1}}}}}
		b := rmodel.Segment{Elems: []rmodel.Elem{{Params: []rmodel.Param{{Name: "n", Value: "**", Blanks: 1}}}}}
		cp.Segs = []rmodel.Segment{lit("w"), a, lit("k"), b, lit("t")}
		return cp, cp.Render(), "two non-final match-alls"
	case 5: // different match-all at an occupied position
		for _, p := range prior {
			for k, s := range p.Segs {
				sg, _ := rmodel.Classify(&s)
				if sg.Kind != rmodel.KAll || s.Optional {
					continue
				}
				q := &rmodel.Route{}
				for _, ps := range p.Segs[:k] {
					q.Segs = append(q.Segs, ps)
				}
				nb := "w"
				if sg.Binds[0] == "w" {
					nb = "u"
				}
				q.Segs = append(q.Segs, rmodel.Segment{Elems: []rmodel.Elem{{Params: []rmodel.Param{{Name: nb, Value: "**", Blanks: 1}}}}})
				if k < len(p.Segs)-1 {
					q.Segs = append(q.Segs, lit("t"+string(rune('a'+rng.Intn(3)))))
				}
				return q, q.Render(), "match-all at an occupied position"
			}
		}
		return cp, cp.Render(), "none"
	case 6: // duplicate of an existing route, possibly spelled with different blanks
		if len(prior) > 0 {
			p := prior[rng.Intn(len(prior))]
			txt := p.Canon()
			if rng.Intn(2) == 0 {
				txt = strings.ReplaceAll(txt, ": ", ":  ")
			}
			return p, txt, "duplicate"
		}
		return cp, cp.Render(), "none"
	case 7: // duplicate through the optional short form
		if len(prior) > 0 {
			p := prior[rng.Intn(len(prior))]
			q := &rmodel.Route{Segs: append([]rmodel.Segment(nil), p.Segs...)}
			last := q.Segs[len(q.Segs)-1]
			if last.Optional {
				if len(q.Segs) > 1 {
					q.Segs = q.Segs[:len(q.Segs)-1] // the short form itself
				}
			} else {
				q.Segs = append(q.Segs, rmodel.Segment{Optional: true, Elems: []rmodel.Elem{{Lit: "o"}}})
			}
			return q, q.Render(), "duplicate via short form"
		}
		return cp, cp.Render(), "none"
	case 8: // expression that does not compile
		bad := badExprs[rng.Intn(len(badExprs))]
		seg := rmodel.Segment{Elems: []rmodel.Elem{{Params: []rmodel.Param{{Name: "e", Value: bad, IsRegex: true, Blanks: 1}}}}}
		if rng.Intn(2) == 0 {
			// each expression is broken on its own, but the assembled pattern of the segment would compile
			pair := [][2]string{{`[x`, `y]`}, {`[x`, `[0-9]+]`}, {`a)(b`, `c`}, {`(a`, `b)`}, {`x\`, `y)`}}[rng.Intn(5)]
			switch rng.Intn(3) {
			case 0:
				seg = rmodel.Segment{Elems: []rmodel.Elem{{Params: []rmodel.Param{{Name: "e", Value: pair[0], IsRegex: true, Blanks: 1}, {Name: "g", Value: pair[1], IsRegex: true, Blanks: 1, Lead: 1}}}}}
			case 1:
				seg = rmodel.Segment{Elems: []rmodel.Elem{{Params: []rmodel.Param{{Name: "e", Value: pair[0], IsRegex: true, Blanks: 1}}}, {Lit: "_"}, {Params: []rmodel.Param{{Name: "g", Value: pair[1], IsRegex: true, Blanks: 1}}}}}
			default:
				seg = rmodel.Segment{Elems: []rmodel.Elem{{Params: []rmodel.Param{{Name: "e", Value: pair[0], IsRegex: true, Blanks: 1}}}, {Params: []rmodel.Param{{Name: "g", Value: pair[1], IsRegex: true, Blanks: 1}}}}}
			}
		}
		i := rng.Intn(n + 1)
		cp.Segs = append(cp.Segs[:i], append([]rmodel.Segment{seg}, cp.Segs[i:]...)...)
		if i < len(cp.Segs)-1 {
			cp.Segs[i].Optional = false
		}
		return cp, cp.Render(), "expression does not compile"
	case 9: // text outside the grammar: one byte-level edit of the rendering
		txt := cp.Render()
		j := rng.Intn(len(txt) + 1)
		ins := []string{"{", "}", ":", "?", " ", "\t", "[", "^", "\x00", "\xff", ",", "//{", "#"}[rng.Intn(13)]
		switch rng.Intn(3) {
		case 0:
			txt = txt[:j] + ins + txt[j:]
		case 1:
			if j < len(txt) {
				txt = txt[:j] + txt[j+1:]
			}
		default:
			if len(txt) > 0 && rng.Intn(3) == 0 {
				txt = txt[1:] // missing leading slash
			} else {
				txt = txt[:j] + ins
			}
		}
		return nil, txt, "text edit"
	default: // segment that is none of the four kinds (totality only)
		odd := []rmodel.Segment{
			{Elems: []rmodel.Elem{{Lit: "a"}, {Params: []rmodel.Param{{Name: "x", Value: "**", Blanks: 1}}}}},
			{Elems: []rmodel.Elem{{Params: []rmodel.Param{{Name: "x", Value: "lit", Blanks: 1}}}}},
			{Elems: []rmodel.Elem{{Params: []rmodel.Param{{Name: "x", Value: "**", Blanks: 1}}}, {Bind: "y"}}},
			{Elems: []rmodel.Elem{{Params: []rmodel.Param{{Name: "x", Value: "**", Blanks: 1}, {Name: "capture", Value: "zz", Blanks: 1, Lead: 1}}}}},
			{Elems: []rmodel.Elem{{Params: []rmodel.Param{{Name: "x", Value: "**", Blanks: 1}, {Name: "capture", Value: "0", Blanks: 1, Lead: 1}}}}},
			{Elems: []rmodel.Elem{{Lit: "a"}, {Bind: "**"}}},
			{Elems: []rmodel.Elem{{Params: []rmodel.Param{{Name: "x", Value: "[0-9]", IsRegex: true, Blanks: 1}, {Name: "y", Value: "lit", Blanks: 1, Lead: 1}}}}},
			{Elems: []rmodel.Elem{{Params: []rmodel.Param{{Name: "**", Value: "**", Blanks: 1}, {Name: "capture", Value: "2", Blanks: 1, Lead: 1}, {Name: "z", Value: "1", Blanks: 1, Lead: 1}}}}},
		}[rng.Intn(8)]
		i := rng.Intn(n + 1)
		cp.Segs = append(cp.Segs[:i], append([]rmodel.Segment{odd}, cp.Segs[i:]...)...)
		if i < len(cp.Segs)-1 {
			cp.Segs[i].Optional = false
		}
		return cp, cp.Render(), "odd segment"
	}
}

// genDeepBinds: routes that share a prefix carrying two to four bind names and then fork into sibling
// bind segments with tails that draw from the same small name pool - so that "a bind name is reused
// along one route" has to be decided deep below forks, where per-node bookkeeping of the names
// collected so far is shared between siblings.
func genDeepBinds(rng *rand.Rand, c *regCase, flame bool) {
	names := []string{"org", "repo", "kind", "number", "name", "id", "ref", "tag"}
	rng.Shuffle(len(names), func(i, j int) { names[i], names[j] = names[j], names[i] })
	ph := func(n string) rmodel.Segment { return rmodel.Segment{Elems: []rmodel.Elem{{Bind: n}}} }
	lit := func(s string) rmodel.Segment { return rmodel.Segment{Elems: []rmodel.Elem{{Lit: s}}} }
	var prefix []rmodel.Segment
	used := 0
	for used < 2+rng.Intn(3) {
		switch rng.Intn(5) {
		case 0:
			prefix = append(prefix, lit([]string{"api", "v1", "r"}[rng.Intn(3)]))
		case 1:
			if used+2 <= 4 {
				prefix = append(prefix, rmodel.Segment{Elems: []rmodel.Elem{{Bind: names[used]}, {Lit: "-"}, {Bind: names[used+1]}}})
				used += 2
				break
			}
			fallthrough
		default:
			prefix = append(prefix, ph(names[used]))
			used++
		}
	}
	for k := 3 + rng.Intn(6); k > 0; k-- {
		rt := &rmodel.Route{Segs: append([]rmodel.Segment{}, prefix...)}
		// the fork: a bind segment with a name of its own (sometimes one already used: must be refused)
		rt.Segs = append(rt.Segs, ph(names[used+rng.Intn(len(names)-used)]))
		if rng.Intn(8) == 0 {
			rt.Segs[len(rt.Segs)-1] = ph(names[rng.Intn(len(names))])
		}
		for t := 1 + rng.Intn(3); t > 0; t-- {
			if rng.Intn(2) == 0 {
				rt.Segs = append(rt.Segs, lit([]string{"view", "raw", "comments", "labels", "x"}[rng.Intn(5)]))
			} else {
				rt.Segs = append(rt.Segs, ph(names[rng.Intn(len(names))]))
			}
		}
		st := regStep{Intent: "deep binds", Route: core.B(rt.Render())}
		if flame {
			st.Method = []string{"GET", "GET", "PATCH", "*"}[rng.Intn(4)]
		}
		c.Steps = append(c.Steps, st)
	}
}

// genManyBinds: more distinct bind names along one route than any fixed-size bookkeeping holds, then one of
// the earliest names again (in a placeholder, a regex segment, a match-all or an optional segment).
func genManyBinds(rng *rand.Rand, c *regCase, flame bool) {
	n := []int{15, 16, 17, 18, 24, 33}[rng.Intn(6)]
	rt := &rmodel.Route{}
	names := []string{}
	for len(names) < n {
		if rng.Intn(4) == 0 && len(names)+3 <= n {
			k := len(names)
			rt.Segs = append(rt.Segs, rmodel.Segment{Elems: []rmodel.Elem{{Bind: fmt.Sprintf("p%d", k)}, {Lit: "-"}, {Bind: fmt.Sprintf("p%d", k+1)}, {Lit: "."}, {Bind: fmt.Sprintf("p%d", k+2)}}})
			names = append(names, "", "", "")
			continue
		}
		rt.Segs = append(rt.Segs, rmodel.Segment{Elems: []rmodel.Elem{{Bind: fmt.Sprintf("p%d", len(names))}}})
		names = append(names, "")
	}
	again := fmt.Sprintf("p%d", rng.Intn(3))
	if rng.Intn(3) == 0 {
		again = fmt.Sprintf("p%d", n) // a fresh name: well-formed
	}
	last := []rmodel.Segment{
		{Elems: []rmodel.Elem{{Bind: again}}},
		{Elems: []rmodel.Elem{{Params: []rmodel.Param{{Name: again, Value: "[0-9]+", IsRegex: true, Blanks: 1}}}}},
		{Elems: []rmodel.Elem{{Params: []rmodel.Param{{Name: again, Value: "**", Blanks: 1}}}}},
		{Optional: true, Elems: []rmodel.Elem{{Bind: again}}},
	}[rng.Intn(4)]
	rt.Segs = append(rt.Segs, last)
	if rng.Intn(2) == 0 && !last.Optional {
		rt.Segs = append(rt.Segs, rmodel.Segment{Elems: []rmodel.Elem{{Lit: "end"}}})
	}
	st := regStep{Intent: "many binds", Route: core.B(rt.Render())}
	if flame {
		st.Method = "GET"
	}
	c.Steps = append(c.Steps, st)
}

// genManyLeaves: 30-45 leaves under one node, then a route that is rightly refused there (the short form of its
// optional segment is taken), then the well-formed route it resembles - which conflicts with nothing.
func genManyLeaves(rng *rand.Rand, c *regCase, flame bool) {
	c.Mode = "continue"
	add := func(txt, intent string) {
		st := regStep{Intent: intent, Route: core.B(txt)}
		if flame {
			st.Method = "GET"
		}
		c.Steps = append(c.Steps, st)
	}
	add("/api/v1", "many leaves")
	n := 30 + rng.Intn(16)
	for i := 0; i < n; i++ {
		if n%2 == 1 {
			add(fmt.Sprintf("/api/v1/res%d/{id}", i), "many subtrees") // the same width one level up: subtrees instead of leaves
			continue
		}
		add(fmt.Sprintf("/api/v1/res%d", i), "many leaves")
	}
	add("/api/v1/?status", "duplicate via short form")
	add("/api/v1/status", "many leaves")
	add("/api/v1/res3", "duplicate")
	add("/api/v1/{id}", "many leaves")
}

func genRegCase(rng *rand.Rand) *regCase {
	c := &regCase{Level: "tree", Mode: "restart"}
	if rng.Intn(2) == 0 {
		c.Mode = "continue"
	}
	flame := rng.Intn(10) < 3
	if flame {
		c.Level = "flame"
	}
	switch rng.Intn(40) {
	case 0, 1, 2, 3, 4:
		genDeepBinds(rng, c, flame)
		return c
	case 5, 6:
		genManyBinds(rng, c, flame)
		return c
	case 7:
		genManyLeaves(rng, c, flame)
		return c
	}
	cfg := gen.Cfg{AllowRoot: true}
	pool := gen.GenPool(rng, cfg)
	n := 1 + rng.Intn(12)
	var prior []*rmodel.Route
	meths := []string{"GET", "GET", "GET", "POST", "get", "Post", "*", "HEAD", "DELETE", "PUT", "PATCH", "OPTIONS", "CONNECT", "TRACE"}
	for i := 0; i < n; i++ {
		rt := gen.GenRoute(rng, pool, cfg)
		st := regStep{Intent: "well-formed"}
		txt := rt.Render()
		if rng.Intn(3) == 0 {
			var m *rmodel.Route
			m, txt, st.Intent = mutateIllFormed(rng, rt, prior)
			rt = m
		} else if rng.Intn(4) == 0 {
			// grammatical respelling with extra blanks
			txt = strings.ReplaceAll(txt, ": ", ":"+strings.Repeat(" ", rng.Intn(3)))
		}
		if j := strings.Index(txt, ", capture: "); j >= 0 && rng.Intn(6) == 0 {
			// the grammar admits an expression as the value of any parameter - also of the capture limit. What such a
			// route means is not judged (a parameter list outside the four kinds); that the registration accepts it or
			// fails loudly, and never crashes, is
			if k := strings.IndexByte(txt[j:], '}'); k > 0 {
				txt = txt[:j] + ", capture: /" + strings.TrimSpace(txt[j+len(", capture: "):j+k]) + "/" + txt[j+k:]
				st.Intent = "expression as capture limit"
			}
		}
		st.Route = core.B(txt)
		if flame {
			if rng.Intn(4) == 0 && len(txt) > 1 {
				// declare it through a group, split anywhere (also between two slashes, inside a segment, at the very end)
				st.Split = 1 + rng.Intn(len(txt))
				if j := strings.Index(txt, "//"); j >= 0 && rng.Intn(2) == 0 {
					st.Split = j + 1
				}
			}
			st.Method = meths[rng.Intn(len(meths))]
			st.Hdr = rng.Intn(5) == 0
			if rng.Intn(25) == 0 {
				st.Method = []string{"BREW", "", " GET", "GET ", "G\xc9T", "**", "GET,POST", "ANY", "any", "ALL", "Any", "*GET", "HTTP", "QUERY"}[rng.Intn(14)]
				st.Intent = "unknown method"
			} else if st.Split == 0 && rng.Intn(20) == 0 {
				// Routes() with one more method as a string argument (known, or known only after trimming / splitting)
				st.Method = []string{st.Method, " " + st.Method + " ", "PATCH, " + st.Method}[rng.Intn(3)]
				if rng.Intn(3) == 0 {
					// lists with an empty item, or with something other than a comma between two names: an item is what
					// stands between two commas, trimmed - and "" or "GET POST" is not the name of a method
					m := st.Method
					st.Method = []string{m + ",", "," + m, m + ",,POST", m + " POST", " , ", ",", m + ";POST", m + ", ", m + "\tPOST", m + ",POST,", m + "|POST", m + ",\n"}[rng.Intn(12)]
					st.Intent = "odd method list"
				}
				st.Arg = []string{"PUT", "delete", " POST", "PUT ", "\tDELETE", "BREW", "GET,POST", " "}[rng.Intn(8)]
				if rng.Intn(2) == 0 {
					st.Arg = []string{"PUT", "delete", "TRACE"}[rng.Intn(3)]
				}
			}
			if st.Method == "GET" && st.Arg == "" && i%4 == 3 {
				st.Method = getWithAutoHead // (no draw of its own: the rest of the history is what it was before)
			}
		}
		if rt != nil {
			prior = append(prior, rt)
		}
		c.Steps = append(c.Steps, st)
	}
	return c
}

func runC08(r *core.Run) {
	r.Rule("registration histories of 1-12 steps over a per-history segment pool: 2/3 well-formed derivations (all four kinds, optional/empty final segment, root, respelled blanks), 1/3 one-mutation ill-formed (one mutator per rejection category of the statement + byte edits + segments outside the four kinds); tree level (route.AddRoute) and Flame level (all nine methods, lower-case, `*`, unknown; Get() while AutoHead is on = GET then HEAD); modes restart/continue. Oracle: Accept() of the reference model applied to the accepted history per method; after the history every form of every accepted route is instantiated and must be dispatched as the model says (reachable subject only to priority; in a third of the histories every route is also asked for right after it was accepted, while the application is still being assembled); structural invariants via hook after every step. non-trivial = distinct histories in which a step's verdict depends on an earlier step (duplicate, short-form duplicate, occupied match-all position)")
	r.Assume("segments that are none of the four kinds are generated for totality only; their accept/reject verdict is not judged")
	c08Canaries(r)
	n := r.N(40000, 4000000)
	r.Parallel("hist", n, func(w *core.W, rng *rand.Rand, i int) {
		c := genRegCase(rng)
		w.Begin("history", c)
		judgeRegCase(w, c)
	})
	r.Gate("distinct_nontrivial", r.NonTrivialCount(), 3000)
	for _, cat := range []rmodel.RejectCategory{rmodel.RejOptional, rmodel.RejEmptyInner, rmodel.RejDupBind, rmodel.RejTwoAll, rmodel.RejAllPosition, rmodel.RejDuplicate, rmodel.RejDupShort, rmodel.RejBadExpr, rmodel.RejOutsideSyntax} {
		r.GateCounter("rejected-both:"+string(cat), 100)
	}
	r.GateCounter("rejected-both:unknown method", 50)
	r.GateCounter("declared-through-routes-with-method-argument", 20)
	r.GateCounter("declared-through-get-with-autohead", 100)
	r.GateCounter("accepted-both", int64(n))
	r.GateCounter("reachability-dispatches", int64(n))
	r.GateCounter("odd-segment-totality", 100)
	if hooksCompiled {
		r.GateCounter("invariant-checks", int64(n))
	}
	for _, k := range []string{"accepted-kind:static", "accepted-kind:regex", "accepted-kind:placeholder", "accepted-kind:match-all", "accepted-kind:optional", "accepted-kind:root", "accepted-kind:empty-final", "accepted-kind:one-segment-optional", "mode:continue-after-refusal", "any-partial-registration", "declared-through-group"} {
		r.GateCounter(k, 1)
	}
}

// loudness classifies how a refusal showed.
func isRuntimePanic(p interface{}) bool {
	_, ok := p.(runtime.Error)
	return ok
}

type accStep struct {
	idx    int
	method string
	txt    string
	ast    *rmodel.Route
}

func judgeRegCase(w *core.W, c *regCase) {
	parser := parserOf(w)
	flame := c.Level == "flame"
	models := map[string]*rmodel.Model{}
	model := func(m string) *rmodel.Model {
		if models[m] == nil {
			models[m] = rmodel.New()
		}
		return models[m]
	}
	var accepted []accStep
	hit := -1
	var seen map[string]string
	nf := false
	var tree route.Tree
	var f *flamego.Flame
	mkHandler := func(i int) route.Handler {
		return func(http.ResponseWriter, *http.Request, route.Params) { hit = i }
	}
	rebuild := func() bool {
		if flame {
			f = flamego.NewWithLogger(io.Discard)
			f.NotFound(func() { nf = true })
			for _, a := range accepted {
				if _, pan := flameRegister(f, a.method, a.txt, a.idx, &hit, &seen); pan != nil {
					w.Violate("rebuild", c, fmt.Sprintf("re-registering the accepted routes on a fresh instance fails at %s %q: %v", a.method, a.txt, pan))
					return false
				}
			}
			return true
		}
		tree = route.NewTree()
		for _, a := range accepted {
			ar, _, _ := safeParse(parser, a.txt)
			if _, err, pan := safeAdd(tree, ar, mkHandler(a.idx)); err != nil || pan != nil {
				w.Violate("rebuild", c, fmt.Sprintf("re-registering the accepted routes on a fresh tree fails at %q: %v %v", a.txt, err, pan))
				return false
			}
		}
		return true
	}
	rebuild()
	dependsOnHistory := false
	afterRefusal := false
	stepRng := rand.New(rand.NewSource(int64(core.Hash64("between", fmt.Sprint(len(c.Steps)), string(c.Steps[0].Route)))))
	probe := func(a accStep, reps int, rng *rand.Rand, when string) bool {
		for _, short := range []bool{false, true} {
			if short && !a.ast.Segs[len(a.ast.Segs)-1].Optional {
				continue
			}
			for rep := 0; rep < reps; rep++ {
				path := "/" + strings.Join(gen.InstRoute(rng, a.ast, short), "/")
				best, _ := model(a.method).Dispatch(path, nil)
				var obs observed
				if flame {
					hit, seen, nf = -1, nil, false
					rec := httptest.NewRecorder()
					req := &http.Request{Method: a.method, URL: &url.URL{Path: path}, Header: http.Header{"X-Reach": {"v"}}} // satisfies the constraint some routes were given after registration
					var pan interface{}
					func() {
						defer func() { pan = recover() }()
						f.ServeHTTP(rec, req)
					}()
					if pan != nil {
						w.Violate("late-failure", c, fmt.Sprintf("serving %s %q panicked after all registrations succeeded: %v", a.method, path, pan))
						return false
					}
					if (hit >= 0) == nf {
						w.Violate("chain-count", c, fmt.Sprintf("serving %s %q: route handler ran=%v and not-found ran=%v", a.method, path, hit >= 0, nf))
						return false
					}
					obs = observed{found: hit >= 0, routeIdx: hit, params: seen, flame: true}
					if seen != nil {
						obs.routeText = seen["route"]
					}
				} else {
					hit = -1
					leaf, params, ok, pan := safeMatch(tree, path, nil)
					if pan != nil {
						w.Violate("late-failure", c, fmt.Sprintf("matching %q panicked after all registrations succeeded: %v", path, pan))
						return false
					}
					if ok {
						leaf.Handler()(nil, nil, params)
						obs.routeText = leaf.Route()
					}
					obs.found, obs.routeIdx, obs.params = ok, hit, params
				}
				w.Count("reachability-dispatches")
				if best != nil && best.Form.RouteIdx == a.idx {
					w.Count("reachability:own-route-wins")
				}
				if msg := dispatchVerdict(best, obs); msg != "" {
					w.Violate("reachability", c, fmt.Sprintf("instance %q of accepted route %s %q (mode %s, asked for %s): %s", path, a.method, a.txt, c.Mode, when, msg))
					return false
				}
			}
		}
		return true
	}

	for i, st := range c.Steps {
		txt := string(st.Route)
		w.Eval()
		mr, merr := rmodel.Parse(txt)

		// --- expected verdict
		methods := []string{"GET"}
		expectReject := ""
		judged := true
		if flame {
			tokens := []string{st.Method}
			if st.Arg != "" {
				// Routes(): the items of the comma list are trimmed, a method given as an argument is taken as it is;
				// they are registered one after the other, so whatever precedes an unknown one stays registered
				tokens = nil
				for _, t := range strings.Split(st.Method, ",") {
					tokens = append(tokens, strings.TrimSpace(t))
				}
				tokens = append(tokens, st.Arg)
			}
			methods = nil
			for _, t := range tokens {
				up := strings.ToUpper(t)
				switch {
				case t == getWithAutoHead:
					// Get() while AutoHead is on registers the route for GET and then for HEAD; a HEAD route that is
					// already there makes the second registration a duplicate like any other (the GET one stays)
					methods = append(methods, "GET", "HEAD")
				case up == "*":
					methods = append(methods, routerMethods...)
				case isKnownMethod(up):
					methods = append(methods, up)
				default:
					methods = append(methods, "?unknown")
				}
			}
		}
		if expectReject == "" && merr != nil {
			expectReject = string(rmodel.RejOutsideSyntax)
		}
		type pend struct {
			m     string
			forms []*rmodel.Form
		}
		var commits []pend
		partial := false
		if expectReject == "" {
			for _, m := range methods {
				if m == "?unknown" {
					expectReject = "unknown method"
					break
				}
				dupInCall := false
				for _, p := range commits {
					if p.m == m {
						dupInCall = true
					}
				}
				if dupInCall {
					expectReject = string(rmodel.RejDuplicate) // the same method twice in one Routes() call: the second registration meets the first
					break
				}
				forms, cat, j := model(m).Check(i, mr)
				if !j {
					judged = false
					break
				}
				if cat != rmodel.RejNone {
					expectReject = string(cat)
					if cat == rmodel.RejDuplicate || cat == rmodel.RejDupShort || cat == rmodel.RejAllPosition {
						dependsOnHistory = true
					}
					break
				}
				commits = append(commits, pend{m, forms})
			}
			if expectReject != "" && len(commits) > 0 {
				partial = true // `*` refused at its k-th method: methods 1..k-1 stay registered (flat-expansion semantics, C11)
			}
		}

		// --- observe
		var implErr error
		var pan interface{}
		if flame && st.Split > 0 && st.Split <= len(txt) {
			w.Count("declared-through-group")
			func() {
				defer func() {
					if x := recover(); x != nil {
						pan = x
					}
				}()
				f.Group(txt[:st.Split], func() {
					_, p2 := flameRegister(f, st.Method, txt[st.Split:], i, &hit, &seen)
					if p2 != nil {
						panic(p2)
					}
				})
			}()
			// a panic inside a group body leaves the group stack behind (the application would have died here), so
			// after a refusal the instance is rebuilt from the accepted routes even in continue mode (below)
		} else if flame && st.Arg != "" {
			w.Count("declared-through-routes-with-method-argument")
			_, pan = flameRegisterArgs(f, true, st.Method, []string{st.Arg}, txt, i, &hit, &seen)
		} else if flame {
			var frt *flamego.Route
			if st.Method == getWithAutoHead {
				w.Count("declared-through-get-with-autohead")
			}
			frt, pan = flameRegister(f, st.Method, txt, i, &hit, &seen)
			if pan == nil && st.Hdr && frt != nil {
				frt.Headers("X-Reach", "^v$")
				w.Count("headers-after-registration")
			}
		} else {
			var ir *route.Route
			ir, implErr, pan = safeParse(parser, txt)
			if pan == nil && implErr == nil {
				_, implErr, pan = safeAdd(tree, ir, mkHandler(i))
			}
		}
		if pan != nil && isRuntimePanic(pan) {
			w.Violate("runtime-error", c, fmt.Sprintf("step %d %s %q: registration crashed with a runtime error instead of accepting or failing loudly: %v", i, st.Method, txt, pan))
			return
		}
		if !flame && pan != nil {
			w.Violate("tree-panic", c, fmt.Sprintf("step %d %q: route.AddRoute/Parse panicked: %v", i, txt, pan))
			return
		}
		implAccepted := implErr == nil && pan == nil

		if !judged {
			w.Count("odd-segment-totality")
			// outside "every other route": only totality is required. Drop whatever it did.
			if !rebuild() {
				return
			}
			continue
		}
		if expectReject != "" {
			if implAccepted {
				w.Violate("accepted-ill-formed", c, fmt.Sprintf("step %d %s %q must be refused (%s) but was accepted", i, st.Method, txt, expectReject))
				return
			}
			w.Count("rejected-both:" + expectReject)
			for _, p := range commits {
				model(p.m).Commit(i, mr, p.forms)
				accepted = append(accepted, accStep{idx: i, method: p.m, txt: txt, ast: mr})
			}
			if partial {
				w.Count("any-partial-registration")
			}
			if c.Mode == "restart" || (flame && st.Split > 0) {
				if !rebuild() {
					return
				}
			} else {
				afterRefusal = true
			}
		} else {
			if !implAccepted {
				w.Violate("refused-well-formed", c, fmt.Sprintf("step %d %s %q is well-formed and conflicts with nothing registered, but was refused: %v %v", i, st.Method, txt, implErr, pan))
				return
			}
			w.Count("accepted-both")
			if afterRefusal {
				w.Count("mode:continue-after-refusal")
			}
			for _, p := range commits {
				model(p.m).Commit(i, mr, p.forms)
				accepted = append(accepted, accStep{idx: i, method: p.m, txt: txt, ast: mr})
			}
			if len(c.Steps)%3 == 0 {
				// a third of the histories: the route just accepted is asked for at once, while the application is still
				// being assembled - and whatever that leaves behind must not stand in the way of a later registration
				for _, p := range commits {
					if !probe(accStep{idx: i, method: p.m, txt: txt, ast: mr}, 1, stepRng, fmt.Sprintf("right after step %d", i)) {
						return
					}
				}
				w.Count("reachability-probed-between-registrations")
			}
			countKinds(w, mr)
		}
		// --- structural invariants at the quiescent point after the step
		if hooksCompiled {
			w.Count("invariant-checks")
			if flame {
				for _, m := range routerMethods {
					if msg := flameTreeInvariants(f, m); msg != "" {
						w.Violate("tree-invariant", c, fmt.Sprintf("after step %d (%s %q), %s tree: %s", i, st.Method, txt, m, msg))
						return
					}
				}
			} else if msg := treeInvariants(tree); msg != "" {
				w.Violate("tree-invariant", c, fmt.Sprintf("after step %d (%q): %s", i, txt, msg))
				return
			}
		}
	}

	// --- reachability: every form of every accepted route, instantiated, must be
	// dispatched exactly as the model says (that route or one the model ranks higher)
	rng := rand.New(rand.NewSource(int64(core.Hash64(fmt.Sprint(len(c.Steps)), string(c.Steps[0].Route)))))
	for _, a := range accepted {
		if !probe(a, 2, rng, "after the last registration") {
			return
		}
	}
	if dependsOnHistory {
		var sb strings.Builder
		for _, st := range c.Steps {
			sb.WriteString(st.Method + " " + string(st.Route) + "\n")
		}
		w.NonTrivial(core.Hash64(c.Level, c.Mode, sb.String()), func() interface{} { return c })
	}
	w.Sample(func() interface{} { return c })
}

func countKinds(w *core.W, rt *rmodel.Route) {
	n := len(rt.Segs)
	for i := range rt.Segs {
		sg, _ := rmodel.Classify(&rt.Segs[i])
		switch sg.Kind {
		case rmodel.KStatic:
			w.Count("accepted-kind:static")
			if len(rt.Segs[i].Elems) == 0 {
				if n == 1 {
					w.Count("accepted-kind:root")
				} else {
					w.Count("accepted-kind:empty-final")
				}
			}
		case rmodel.KRegex:
			w.Count("accepted-kind:regex")
		case rmodel.KPlaceholder:
			w.Count("accepted-kind:placeholder")
		case rmodel.KAll:
			w.Count("accepted-kind:match-all")
		}
		if rt.Segs[i].Optional {
			w.Count("accepted-kind:optional")
			if n == 1 {
				w.Count("accepted-kind:one-segment-optional")
			}
		}
	}
}

func c08Canaries(r *core.Run) {
	m := rmodel.New()
	add := func(i int, s string) rmodel.RejectCategory {
		rt, err := rmodel.Parse(s)
		if err != nil {
			return rmodel.RejOutsideSyntax
		}
		cat, _ := m.Add(i, rt)
		return cat
	}
	r.Canary("accept baseline", add(0, "/a/{x}/?b") == rmodel.RejNone)
	r.Canary("short-form duplicate", add(1, "/a/{x}") == rmodel.RejDupShort)
	r.Canary("bind reuse in one segment", add(2, "/{y}-{y}") == rmodel.RejDupBind)
	r.Canary("non-final optional", add(3, "/?q/r") == rmodel.RejOptional)
	r.Canary("empty inner", add(4, "/q//r") == rmodel.RejEmptyInner)
	r.Canary("bad expression alone", add(5, "/{x: /a)(b/}") == rmodel.RejBadExpr)
	r.Canary("two match-alls", add(6, "/{m: **}/k/{n: **}/t") == rmodel.RejTwoAll)
	r.Canary("match-all accepted", add(7, "/w/{m: **}/t") == rmodel.RejNone)
	r.Canary("occupied match-all position", add(8, "/w/{n: **}/u") == rmodel.RejAllPosition)
	r.Canary("one-segment optional accepted", add(9, "/?z") == rmodel.RejNone)
}
