package checks

// Panics raised from positions that //line directives place elsewhere - the situation of generated code and of
// source files edited, moved or replaced after the build. Whoever prints source context for the frames of a
// panic must cope with whatever is (or is not) at the place a frame names: a line past the end of an existing
// file, a directory, a path through a plain file, a file that is gone, an empty file, one enormous line, the last line of a
// file that does not end in a newline, a file with CR LF line ends.
// (c15EnterDir sets the scene in the scratch directory the process works in.)

// c15PanicAt raises the panic from the k-th of those positions.
func c15PanicAt(k int, m string) {
	switch k % 8 {
	case 0:
		c15PanicFarLine(m)
	case 1:
		c15PanicInDir(m)
	case 2:
		c15PanicThroughFile(m)
	case 3:
		c15PanicGone(m)
	case 4:
		c15PanicEmpty(m)
	case 6:
		c15PanicLastLineNoNewline(m)
	case 7:
		c15PanicCRLF(m)
	default:
		c15PanicHugeLine(m)
	}
}

//line c15_short.txt:4000
func c15PanicFarLine(m string) { panic(m) }

//line c15_dir:10
func c15PanicInDir(m string) { panic(m) }

//line c15_short.txt/gen.go:5
func c15PanicThroughFile(m string) { panic(m) }

//line c15_gone.go:7
func c15PanicGone(m string) { panic(m) }

//line c15_empty.txt:1
func c15PanicEmpty(m string) { panic(m) }

//line c15_huge.txt:1
func c15PanicHugeLine(m string) { panic(m) }

//line c15_nonl.txt:3
func c15PanicLastLineNoNewline(m string) { panic(m) }

//line c15_crlf.txt:2
func c15PanicCRLF(m string) { panic(m) }
