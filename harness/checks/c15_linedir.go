package checks

// c15PanicFarLine panics from a position that a //line directive places at line 4000 of c15_short.txt, an
// existing file of one line - the situation of generated code and of source files edited after the build.
// Whoever prints source context for the frames of a panic must cope with a line that is not there.
//
//line c15_short.txt:4000
func c15PanicFarLine(m string) { panic(m) }
