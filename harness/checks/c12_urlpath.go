package checks

import (
	"encoding/json"
	"fmt"
	"io"
	"math/rand"
	"net/http"
	"net/http/httptest"
	"net/url"
	"strings"

	"github.com/flamego/flamego"
	"github.com/flamego/flamego/internal/route"
	"github.com/flamego/flamego/verifharness/core"
	"github.com/flamego/flamego/verifharness/gen"
	"github.com/flamego/flamego/verifharness/rmodel"
)

// urlCase: build the URL of one route from name/value pairs (C12).
type urlCase struct {
	Route string   `json:"route"`
	Pairs []core.B `json:"pairs"`                         // name, value, name, value … (a trailing name without value is ignored)
	Entry string   `json:"entry"`                         // router | context | leaf
	Own   core.B   `json:"served_request_path,omitempty"` // context entry: the build is made while THIS request (an instance of the named route itself) is being served; the request's own parameters are not arguments of the build
	Pre   []core.B `json:"earlier_build,omitempty"`       // pairs of a build made on the same instance just before the judged one (its result must not influence it)
}

// nameCase: naming operations and look-ups.
type nameCase struct {
	Routes  []string    `json:"routes"`
	Naming  [][2]string `json:"naming"`                             // (route index as text | "combo:<idx>", name) in order
	Lookups []string    `json:"lookups"`                            // names to build
	Env     string      `json:"env,omitempty"`                      // process environment during the look-ups (serial cases only): unknown names panic in every environment
	ViaCtx  bool        `json:"through_context,omitempty"`          // look-ups are made by a handler through Context.URLPath while a request is served
	ViaNF   bool        `json:"from_the_not_found_chain,omitempty"` // ... by a custom NotFound handler while an unrouted request is served (a "did you mean" page builds links the same way)
}

// invCase: inverse direction – dispatch a request to a named route and rebuild its path.
type invCase struct {
	Routes []string `json:"routes"`
	Paths  []core.B `json:"paths"`
}

func init() {
	register(&Check{ID: "C12", Run: runC12, Replay: func(w *core.W, kind string, raw json.RawMessage) {
		switch kind {
		case "names":
			var c nameCase
			if json.Unmarshal(raw, &c) == nil {
				w.Begin("names", &c)
				judgeNames(w, &c)
			}
		case "inverse":
			var c invCase
			if json.Unmarshal(raw, &c) == nil {
				w.Begin("inverse", &c)
				judgeInverse(w, &c)
			}
		default:
			var c urlCase
			if json.Unmarshal(raw, &c) == nil {
				w.Begin("url", &c)
				judgeURL(w, &c)
			}
		}
	}})
}

// urlOracle renders the URL from the derivation: simultaneous substitution,
// unknown names ignored, unsupplied binds stay visible, annotations dropped.
func urlOracle(rt *rmodel.Route, vals map[string]string, withOptional bool) string {
	var sb strings.Builder
	put := func(bind string) {
		if v, ok := vals[bind]; ok {
			sb.WriteString(v)
		} else {
			sb.WriteString("{" + bind + "}")
		}
	}
	for i := range rt.Segs {
		s := &rt.Segs[i]
		if s.Optional && !withOptional {
			break
		}
		sb.WriteByte('/')
		for _, e := range s.Elems {
			switch {
			case e.IsLit():
				sb.WriteString(e.Lit)
			case e.IsBind():
				put(e.Bind)
			default:
				for k, p := range e.Params {
					if k > 0 && !p.IsRegex {
						break // `capture: n` of a match-all is an annotation, not a bind
					}
					put(p.Name)
				}
			}
		}
	}
	if sb.Len() == 0 {
		return "/"
	}
	return sb.String()
}

func pairsToVals(pairs []core.B) (map[string]string, bool) {
	vals := map[string]string{}
	for i := 1; i < len(pairs); i += 2 {
		vals[string(pairs[i-1])] = string(pairs[i])
	}
	with := vals["withOptional"] == "true"
	if with {
		delete(vals, "withOptional")
	}
	return vals, with
}

var urlValues = []string{"", "a", "12", "{x}", "{y}", "{z}", "{p}", "{q}", "}{", "{", "a/b", "%41", "%", "x y", "{x}{y}", "é", "\xff", "{withOptional}", "true", strings.Repeat("long", 50)}

func bindsOf(rt *rmodel.Route) []string {
	var out []string
	for i := range rt.Segs {
		sg, _ := rmodel.Classify(&rt.Segs[i])
		out = append(out, sg.Binds...)
	}
	return out
}

func genURLCase(rng *rand.Rand) *urlCase {
	cfg := gen.Cfg{AllowRoot: true}
	pool := gen.GenPool(rng, cfg)
	var rt *rmodel.Route
	for tries := 0; ; tries++ {
		rt = gen.GenRoute(rng, pool, cfg)
		m := rmodel.New()
		if cat, judged := m.Add(0, rt); cat == rmodel.RejNone && judged {
			break
		}
		if tries > 20 {
			rt = &rmodel.Route{Segs: []rmodel.Segment{{Elems: []rmodel.Elem{{Lit: "a"}}}, {Optional: true, Elems: []rmodel.Elem{{Bind: "x"}}}}}
			break
		}
	}
	if rng.Intn(12) == 0 {
		// bind names that look like the API's own keywords are ordinary bind names
		renameOneBind(rt, []string{"withOptional", "capture", "route", "Route", "name"}[rng.Intn(5)])
		if cat, judged := rmodel.New().Add(0, rt); cat != rmodel.RejNone || !judged {
			rt = &rmodel.Route{Segs: []rmodel.Segment{{Elems: []rmodel.Elem{{Lit: "a"}}}, {Elems: []rmodel.Elem{{Params: []rmodel.Param{{Name: "unit", Value: "[0-9]+", IsRegex: true, Blanks: 1}, {Name: "capture", Value: "[a-z]+", IsRegex: true, Blanks: 1, Lead: 1}}}}}, {Optional: true, Elems: []rmodel.Elem{{Bind: "withOptional"}}}}}
		}
	}
	c := &urlCase{Route: rt.Render(), Entry: []string{"router", "context", "leaf"}[rng.Intn(3)]}
	if c.Entry == "context" && rng.Intn(2) == 0 {
		c.Own = core.B("/" + strings.Join(gen.InstRoute(rng, rt, rng.Intn(2) == 0), "/"))
	}
	binds := bindsOf(rt)
	for _, b := range binds {
		if rng.Intn(4) != 0 {
			c.Pairs = append(c.Pairs, core.B(b), core.B(urlValues[rng.Intn(len(urlValues))]))
		}
	}
	for k := rng.Intn(3); k > 0; k-- { // unknown / repeated names
		name := []string{"zz", "nope", "x", "y", "route", "capture", "X"}[rng.Intn(7)]
		if len(binds) > 0 && rng.Intn(4) == 0 {
			// a name that merely wraps a bind name in braces is an unknown name
			b := binds[rng.Intn(len(binds))]
			name = []string{"{" + b + "}", "{" + b, b + "}", "{withOptional}", " " + b, b + " "}[rng.Intn(6)]
		}
		c.Pairs = append(c.Pairs, core.B(name), core.B(urlValues[rng.Intn(len(urlValues))]))
	}
	switch rng.Intn(5) {
	case 0, 1:
		c.Pairs = append(c.Pairs, "withOptional", "true")
	case 2:
		c.Pairs = append(c.Pairs, "withOptional", core.B([]string{"false", "TRUE", "1", "", "yes", "true ", " true", "true\n", "\ttrue", "True", "t", "truee"}[rng.Intn(12)]))
	}
	if rng.Intn(10) == 0 {
		c.Pairs = append(c.Pairs, core.B([]string{"x", "dangling", "withOptional"}[rng.Intn(3)])) // a name without value
	}
	if binds := bindsOf(rt); len(binds) >= 2 && rng.Intn(10) == 0 {
		// the judged build passes ONE value that spells out what an earlier build passed as TWO pairs, glued with a
		// separator: any internal key made by joining arguments would confuse the two
		sep := []string{"&", "=", ",", ";", "|", "/", " ", "\x00", ":", "&amp;", "\n", "%26"}[rng.Intn(12)]
		v1, v2 := urlValues[1+rng.Intn(2)], "7"
		c.Pre = []core.B{core.B(binds[0]), core.B(v1), core.B(binds[1]), core.B(v2)}
		c.Pairs = []core.B{core.B(binds[0]), core.B(v1 + sep + binds[1] + sep + v2)}
		return c
	}
	rng.Shuffle(len(c.Pairs)/2, func(i, j int) {
		c.Pairs[2*i], c.Pairs[2*j] = c.Pairs[2*j], c.Pairs[2*i]
		c.Pairs[2*i+1], c.Pairs[2*j+1] = c.Pairs[2*j+1], c.Pairs[2*i+1]
	})
	return c
}

// renameOneBind renames one bind of the route (a {bind} element or a regex parameter, preferably a non-first one).
func renameOneBind(rt *rmodel.Route, name string) {
	for si := len(rt.Segs) - 1; si >= 0; si-- {
		es := rt.Segs[si].Elems
		for ei := len(es) - 1; ei >= 0; ei-- {
			if es[ei].IsBind() && es[ei].Bind != "**" {
				es[ei].Bind = name
				return
			}
			for pi := len(es[ei].Params) - 1; pi >= 0; pi-- {
				if es[ei].Params[pi].IsRegex {
					es[ei].Params[pi].Name = name
					return
				}
			}
		}
	}
}

func judgeURL(w *core.W, c *urlCase) {
	w.Eval()
	rt, err := rmodel.Parse(c.Route)
	if err != nil {
		return
	}
	vals, with := pairsToVals(c.Pairs)
	want := urlOracle(rt, vals, with)
	var got string
	var pan interface{}
	pairs := core.Ss(c.Pairs)
	switch c.Entry {
	case "leaf":
		ir, perr, _ := safeParse(parserOf(w), c.Route)
		if perr != nil {
			return
		}
		leaf, aerr, apan := safeAdd(route.NewTree(), ir, nil)
		if aerr != nil || apan != nil {
			w.Count("skipped:refused(C08)")
			return
		}
		func() {
			defer func() { pan = recover() }()
			if len(c.Pre) > 0 {
				pv, pw := pairsToVals(c.Pre)
				_ = leaf.URLPath(pv, pw)
			}
			_ = leaf.URLPath(vals, !with) // an earlier build with the other setting must not influence this one
			_ = leaf.URLPath(map[string]string{"x": "earlier"}, with)
			got = leaf.URLPath(vals, with)
		}()
	default:
		f := flamego.NewWithLogger(io.Discard)
		var fromCtx string
		var rpan interface{}
		func() {
			defer func() { rpan = recover() }()
			f.Get(c.Route, func(ctx flamego.Context) { fromCtx = ctx.URLPath("n", pairs...) }).Name("n")
			f.Get("/__probe", func(ctx flamego.Context) { fromCtx = ctx.URLPath("n", pairs...) })
		}()
		if rpan != nil {
			w.Count("skipped:refused(C08)")
			return
		}
		func() {
			defer func() { pan = recover() }()
			// earlier builds of the same named route with the other withOptional setting / other values
			if len(c.Pre) > 0 {
				_ = f.URLPath("n", core.Ss(c.Pre)...)
				w.Count("earlier-build-with-glued-arguments")
			}
			if with {
				_ = f.URLPath("n", "x", "earlier")
			} else {
				_ = f.URLPath("n", "x", "earlier", "withOptional", "true")
			}
			if c.Entry == "router" {
				// callers keep one argument slice and pass it again: the second build gets what the first one got
				keep := append([]string(nil), pairs...)
				got = f.URLPath("n", pairs...)
				if again := f.URLPath("n", pairs...); again != got {
					panic(fmt.Sprintf("the same argument slice passed again builds %q, the first time %q (the slice was %q and is now %q)", again, got, keep, pairs))
				}
				w.Count("same-argument-slice-passed-twice")
			} else {
				rec := httptest.NewRecorder()
				target := "/__probe"
				if len(c.Own) > 0 {
					target = string(c.Own)
					fromCtx = "<the handler of the named route did not run for its own instance " + target + ">"
					w.Count("built-while-serving-the-named-route-itself")
				}
				f.ServeHTTP(rec, &http.Request{Method: "GET", URL: &url.URL{Path: target}, Header: http.Header{}})
				got = fromCtx
				if strings.HasPrefix(got, "<the handler") {
					// the instance did not dispatch (hostile value shapes): build through the probe instead
					target = "/__probe"
					f.ServeHTTP(httptest.NewRecorder(), &http.Request{Method: "GET", URL: &url.URL{Path: target}, Header: http.Header{}})
					got = fromCtx
				}
				// the handler keeps its argument slice between requests
				f.ServeHTTP(httptest.NewRecorder(), &http.Request{Method: "GET", URL: &url.URL{Path: target}, Header: http.Header{}})
				if fromCtx != got {
					panic(fmt.Sprintf("the same argument slice passed by the next request builds %q, the first time %q", fromCtx, got))
				}
			}
		}()
	}
	w.Count("entry:" + c.Entry)
	for _, b := range bindsOf(rt) {
		if b == "withOptional" || b == "capture" || b == "route" {
			w.Count("keyword-looking-bind-name")
			break
		}
	}
	if pan != nil {
		w.Violate("url-panic", c, fmt.Sprintf("building the URL panicked: %v", pan))
		return
	}
	if got != want {
		w.Violate("url", c, fmt.Sprintf("route %q pairs %q: got %q, want %q", c.Route, pairs, got, want))
		return
	}
	// non-triviality
	binds := bindsOf(rt)
	nt := false
	for _, b := range binds {
		v, ok := vals[b]
		if !ok {
			nt = true
			w.Count("nt:bind-unsupplied")
			continue
		}
		for _, o := range binds {
			if o != b && strings.Contains(v, "{"+o+"}") {
				nt = true
				w.Count("nt:value-looks-like-another-bind")
			}
		}
	}
	for i := range rt.Segs {
		if rt.Segs[i].Optional {
			nt = true
			if with {
				w.Count("nt:optional-included")
			} else {
				w.Count("nt:optional-excluded")
			}
		}
		for _, e := range rt.Segs[i].Elems {
			if len(e.Params) > 1 && e.Params[1].IsRegex {
				nt = true
				w.Count("nt:multi-parameter-list")
			}
		}
	}
	if nt {
		w.NonTrivial(core.Hash64(c.Route, strings.Join(pairs, "\x00")), func() interface{} {
			return map[string]interface{}{"route": c.Route, "pairs": c.Pairs, "url": core.B(got)}
		})
	}
	w.Sample(func() interface{} {
		return map[string]interface{}{"route": c.Route, "pairs": c.Pairs, "url": core.B(got)}
	})
}

func genNameCase(rng *rand.Rand) *nameCase {
	c := &nameCase{Routes: []string{"/a", "/b/{x}", "/c/?d", "/e"}}
	names := []string{"", "n1", "n2", "n1", "home", "Kelvin", "users.show"}
	for k := 1 + rng.Intn(5); k > 0; k-- {
		ri := rng.Intn(len(c.Routes))
		who := fmt.Sprint(ri)
		if rng.Intn(4) == 0 {
			who = "combo:" + who
		}
		c.Naming = append(c.Naming, [2]string{who, names[rng.Intn(len(names))]})
	}
	for k := 1 + rng.Intn(3); k > 0; k-- {
		c.ViaCtx = rng.Intn(3) == 0
		c.ViaNF = c.ViaCtx && rng.Intn(2) == 0
		c.Lookups = append(c.Lookups, []string{"n1", "n2", "zz", "", "N1", "home", "HOME", "Home", "\u212aelvin", "kelvin", "Kelvin", "home ", " home", "hom", "homee", "users.show", "users_show", "USERS.SHOW", "n1\x00",
			// things that identify a route in some other way are not names: its text, its path, its method and text, its index
			"/a", "/e", "/b/{x}", "/c/?d", "/c", "/combo0", "a", "e", "GET /a", "GET:/a", "0", "1", "/__lookup"}[rng.Intn(32)])
	}
	return c
}

func judgeNames(w *core.W, c *nameCase) {
	w.Eval()
	f := flamego.NewWithLogger(io.Discard)
	var routes []*flamego.Route
	var combos []*flamego.ComboRoute
	for i, r := range c.Routes {
		routes = append(routes, f.Get(r, func() {}))
		if i%2 == 0 {
			combos = append(combos, f.Combo(fmt.Sprintf("/combo%d", i)).Post(func() {}))
		} else {
			// held in a variable and filled by separate statements: the value a later Name() is called on is the
			// one Combo() returned, not the one the last verb returned
			cb := f.Combo(fmt.Sprintf("/combo%d", i))
			cb.Post(func() {})
			cb.Put(func() {})
			combos = append(combos, cb)
		}
	}
	named := map[string]string{}
	for _, nm := range c.Naming {
		var idx int
		isCombo := strings.HasPrefix(nm[0], "combo:")
		fmt.Sscan(strings.TrimPrefix(nm[0], "combo:"), &idx)
		_, dup := named[nm[1]]
		wantPanic := nm[1] == "" || dup
		var pan interface{}
		func() {
			defer func() { pan = recover() }()
			if isCombo {
				combos[idx].Name(nm[1])
			} else {
				routes[idx].Name(nm[1])
			}
		}()
		w.Count("naming-ops")
		if (pan != nil) != wantPanic {
			w.Violate("naming", c, fmt.Sprintf("Name(%q) on %s: panic=%v, expected panic=%v (empty or duplicate names must be refused)", nm[1], nm[0], pan, wantPanic))
			return
		}
		if wantPanic {
			w.Count("naming-refused")
			continue
		}
		if isCombo {
			named[nm[1]] = fmt.Sprintf("/combo%d", idx)
		} else {
			named[nm[1]] = c.Routes[idx]
		}
	}
	cur := ""
	var got string
	if c.ViaCtx {
		f.Get("/__lookup", func(ctx flamego.Context) { got = ctx.URLPath(cur, "x", "V", "withOptional", "true") })
		w.Count("name-lookups-through-context")
	}
	lookupPath := "/__lookup"
	if c.ViaNF {
		f.NotFound(func(ctx flamego.Context) { got = ctx.URLPath(cur, "x", "V", "withOptional", "true") })
		lookupPath = "/no/such/route"
		w.Count("name-lookups-from-the-not-found-chain")
	}
	if c.Env != "" {
		prev := flamego.Env()
		flamego.SetEnv(flamego.EnvType(c.Env))
		defer flamego.SetEnv(prev)
		w.Count("name-lookups-under-env:" + c.Env)
	}
	for _, n := range c.Lookups {
		rtxt, ok := named[n]
		var pan interface{}
		got = ""
		func() {
			defer func() { pan = recover() }()
			if c.ViaCtx {
				cur = n
				f.ServeHTTP(httptest.NewRecorder(), &http.Request{Method: "GET", URL: &url.URL{Path: lookupPath}, Header: http.Header{}})
				return
			}
			got = f.URLPath(n, "x", "V", "withOptional", "true")
		}()
		w.Count("name-lookups")
		if (pan != nil) == ok {
			w.Violate("lookup", c, fmt.Sprintf("URLPath(%q): panic=%v, but the name is registered=%v", n, pan, ok))
			return
		}
		if ok {
			rt, _ := rmodel.Parse(rtxt)
			if want := urlOracle(rt, map[string]string{"x": "V"}, true); got != want {
				w.Violate("lookup-url", c, fmt.Sprintf("URLPath(%q) = %q, want %q (route %q)", n, got, want, rtxt))
				return
			}
		} else {
			w.Count("unknown-name-refused")
		}
	}
	b, _ := json.Marshal(c)
	w.NonTrivial(core.Hash64("names", string(b)), nil)
}

func judgeInverse(w *core.W, c *invCase) {
	f := flamego.NewWithLogger(io.Discard)
	model := rmodel.New()
	type obsT struct {
		idx     int
		rebuilt [2]string
	}
	var obs *obsT
	for i, txt := range c.Routes {
		mr, err := rmodel.Parse(txt)
		if err != nil {
			continue
		}
		forms, cat, judged := model.Check(i, mr)
		if !judged || cat != rmodel.RejNone {
			continue
		}
		i := i
		name := fmt.Sprintf("r%d", i)
		var pan interface{}
		func() {
			defer func() { pan = recover() }()
			f.Get(txt, func(ctx flamego.Context) {
				var pairs []string
				for k, v := range ctx.Params() {
					if k != "route" {
						pairs = append(pairs, k, v)
					}
				}
				o := &obsT{idx: i}
				o.rebuilt[0] = ctx.URLPath(name, pairs...)
				o.rebuilt[1] = ctx.URLPath(name, append(pairs, "withOptional", "true")...)
				obs = o
			}).Name(name)
		}()
		if pan != nil {
			w.Count("abandoned:accept-disagreement(C08)")
			return
		}
		model.Commit(i, mr, forms)
	}
	for _, pb := range c.Paths {
		path := string(pb)
		w.Eval()
		best, _ := model.Dispatch(path, nil)
		obs = nil
		var pan interface{}
		func() {
			defer func() { pan = recover() }()
			f.ServeHTTP(httptest.NewRecorder(), &http.Request{Method: "GET", URL: &url.URL{Path: path}, Header: http.Header{}})
		}()
		if pan != nil {
			w.Violate("inverse-panic", c, fmt.Sprintf("GET %q panicked: %v", path, pan))
			return
		}
		if best == nil || obs == nil || obs.idx != best.Form.RouteIdx {
			continue // dispatch itself is C01's subject
		}
		if _, has := best.Raw["route"]; has {
			continue // the bind's value is replaced by the reserved `route` parameter inside a handler
		}
		if _, has := best.Raw["withOptional"]; has {
			continue // through the pairs API the name withOptional is the flag itself
		}
		want := expectedRoundTrip(best, rmodel.SplitPath(path))
		got := obs.rebuilt[1]
		if best.Form.Short {
			got = obs.rebuilt[0]
		}
		w.Count("inverse-checked")
		if got != want {
			w.Violate("inverse", c, fmt.Sprintf("request %q dispatched to %q: Context.URLPath with its parameters (optional segment used=%v) = %q, want %q", path, best.Form.Route, !best.Form.Short, got, want))
			return
		}
		if len(best.Raw) > 0 {
			w.NonTrivial(core.Hash64("inv", best.Form.Route, path), func() interface{} {
				return map[string]interface{}{"route": best.Form.Route, "request_path": core.B(path), "rebuilt": core.B(got)}
			})
		}
	}
}

func runC12(r *core.Run) {
	r.Rule("(a) builds: one accepted route (all four kinds, multi-parameter lists, optional/empty final segment, root) x value assignments over hostile values ({x}-looking values, braces, slashes, escapes, empty, long, non-UTF-8), subsets of binds, unknown and repeated names, withOptional true/false/garbage, dangling name; through Router.URLPath, Context.URLPath and Leaf.URLPath. Oracle: renderer driven by the generated derivation (simultaneous substitution, annotations dropped). (b) inverse: requests dispatched to named routes rebuild their own path through Context.URLPath(params, withOptional iff used). (c) naming: empty / duplicate / unknown names must panic - unknown names include case variants, Unicode case-fold variants, padded, truncated and extended spellings of registered names; router-level builds are repeated with the very same argument slice. non-trivial = distinct builds where a value looks like another bind of the route, or a bind is unsupplied, or the route has a multi-parameter list / optional segment (plus distinct inverse and naming cases)")
	r.Assume("of names containing braces only a bind name wrapped in (or followed / preceded by) one brace is generated: other brace-carrying names are not bind names and their effect on a one-pass replacer depends on map order")
	c12Canaries(r)
	n := r.N(60000, 3000000)
	r.Parallel("url", n, func(w *core.W, rng *rand.Rand, i int) {
		c := genURLCase(rng)
		w.Begin("url", c)
		judgeURL(w, c)
	})
	r.Parallel("names", r.N(3000, 100000), func(w *core.W, rng *rand.Rand, i int) {
		c := genNameCase(rng)
		w.Begin("names", c)
		judgeNames(w, c)
	})
	// look-ups through Context.URLPath under each process environment (the environment is process-global: serial)
	ws := r.Serial()
	for i := 0; i < r.N(600, 20000); i++ {
		rng := r.Rand("names-env", i)
		c := genNameCase(rng)
		c.ViaCtx = true
		c.Env = []string{"production", "development", "test"}[i%3]
		ws.Begin("names", c)
		judgeNames(ws, c)
	}
	ws.Done()
	ws.Merge()
	r.GateCounter("name-lookups-under-env:production", 100)
	r.Parallel("inverse", r.N(2000, 100000), func(w *core.W, rng *rand.Rand, i int) {
		set := gen.GenSet(rng, gen.Cfg{AllowRoot: true}, 6)
		c := &invCase{}
		for _, rt := range set {
			c.Routes = append(c.Routes, rt.Render())
		}
		for k := 0; k < 30; k++ {
			c.Paths = append(c.Paths, core.B(gen.GenPath(rng, set)))
		}
		w.Begin("inverse", c)
		judgeInverse(w, c)
	})
	r.Gate("distinct_nontrivial", r.NonTrivialCount(), 5000)
	for _, k := range []string{"nt:value-looks-like-another-bind", "nt:bind-unsupplied", "nt:multi-parameter-list", "nt:optional-included", "nt:optional-excluded", "entry:router", "entry:context", "entry:leaf", "naming-refused", "unknown-name-refused", "name-lookups-from-the-not-found-chain", "inverse-checked", "keyword-looking-bind-name", "earlier-build-with-glued-arguments"} {
		r.GateCounter(k, 100)
	}
}

func c12Canaries(r *core.Run) {
	rt, _ := rmodel.Parse("/m/{a: /x/, b: /y/}/{c}/?{d: **, capture: 2}")
	r.Canary("oracle: simultaneous substitution", urlOracle(rt, map[string]string{"a": "{b}", "b": "2", "c": "{a}"}, false) == "/m/{b}2/{a}")
	r.Canary("oracle: unsupplied stays, annotation dropped, optional on request", urlOracle(rt, map[string]string{"zz": "1"}, true) == "/m/{a}{b}/{c}/{d}")
	// sequential ReplaceAll would re-scan inserted values
	seq := strings.ReplaceAll(strings.ReplaceAll("/{x}/{y}", "{x}", "{y}"), "{y}", "v")
	rt2, _ := rmodel.Parse("/{x}/{y}")
	r.Canary("sequential substitution differs", seq != urlOracle(rt2, map[string]string{"x": "{y}", "y": "v"}, false))
	rt3, _ := rmodel.Parse("/?o")
	r.Canary("one-segment optional excluded gives /", urlOracle(rt3, nil, false) == "/")
}
