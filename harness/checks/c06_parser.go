package checks

import (
	"encoding/json"
	"fmt"
	"math/rand"
	"strings"

	"github.com/flamego/flamego/internal/route"
	"github.com/flamego/flamego/verifharness/core"
	"github.com/flamego/flamego/verifharness/gen"
	"github.com/flamego/flamego/verifharness/rmodel"
)

type parseCase struct {
	S core.B `json:"input"`
}

func init() {
	register(&Check{ID: "C06", Run: runC06, Replay: func(w *core.W, kind string, raw json.RawMessage) {
		var c parseCase
		if err := json.Unmarshal(raw, &c); err != nil {
			w.R.Inconclusive("replay case does not decode: " + err.Error())
			return
		}
		w.Begin("parse", &c)
		judgeParse(w, parserOf(w), string(c.S), "replay", nil)
	}})
}

// fromImpl mirrors the real AST into the reference AST type.
func fromImpl(r *route.Route) (*rmodel.Route, string) {
	out := &rmodel.Route{}
	for _, s := range r.Segments {
		if s == nil {
			return nil, "nil segment"
		}
		seg := rmodel.Segment{Optional: s.Optional}
		for _, e := range s.Elements {
			switch {
			case e.Ident != nil && e.BindIdent == nil && e.BindParameters == nil:
				seg.Elems = append(seg.Elems, rmodel.Elem{Lit: *e.Ident})
			case e.BindIdent != nil && e.Ident == nil && e.BindParameters == nil:
				seg.Elems = append(seg.Elems, rmodel.Elem{Bind: *e.BindIdent})
			case e.BindParameters != nil && e.Ident == nil && e.BindIdent == nil && len(e.BindParameters.Parameters) > 0:
				var ps []rmodel.Param
				for _, p := range e.BindParameters.Parameters {
					switch {
					case p.Value.Literal != nil && p.Value.Regex == nil:
						ps = append(ps, rmodel.Param{Name: p.Ident, Value: *p.Value.Literal})
					case p.Value.Regex != nil && p.Value.Literal == nil:
						ps = append(ps, rmodel.Param{Name: p.Ident, Value: *p.Value.Regex, IsRegex: true})
					default:
						return nil, "parameter with neither/both literal and regex value"
					}
				}
				seg.Elems = append(seg.Elems, rmodel.Elem{Params: ps})
			default:
				return nil, "element that is none of ident / {ident} / parameter list"
			}
		}
		out.Segs = append(out.Segs, seg)
	}
	return out, ""
}

// parserObs is what was observed of the real parser for one input.
type parserObs struct {
	pan      interface{}
	accepted bool
	ast      *rmodel.Route
	astErr   string
	str      string // Route.String()
	reOK     bool   // Parse(String()) succeeded
	reAST    *rmodel.Route
	reStr    string
}

// parserVerdict is the pure comparator of C06.
func parserVerdict(s string, obs parserObs) string {
	if obs.pan != nil {
		return fmt.Sprintf("Parse panicked: %v", obs.pan)
	}
	want, werr := rmodel.Parse(s)
	if (werr == nil) != obs.accepted {
		if werr == nil {
			return "input is in the documented grammar but was rejected"
		}
		return "input is outside the documented grammar (" + werr.Error() + ") but was accepted"
	}
	if !obs.accepted {
		return ""
	}
	if obs.astErr != "" {
		return "parsed structure is malformed: " + obs.astErr
	}
	if !obs.ast.Equal(want) {
		return fmt.Sprintf("parsed structure differs from the derivation: got %q want %q", obs.ast.Canon(), want.Canon())
	}
	if obs.str != want.Canon() {
		return fmt.Sprintf("canonical rendering %q is not the input with blanks after ':' and ',' normalised (%q)", obs.str, want.Canon())
	}
	if !obs.reOK {
		return fmt.Sprintf("canonical rendering %q does not parse", obs.str)
	}
	if obs.reAST == nil || !obs.reAST.Equal(want) {
		return fmt.Sprintf("canonical rendering %q parses to a different structure", obs.str)
	}
	if obs.reStr != obs.str {
		return fmt.Sprintf("canonical rendering is not a fixpoint: %q renders to %q", obs.str, obs.reStr)
	}
	return ""
}

func observeParse(p *route.Parser, s string) parserObs {
	var obs parserObs
	rt, err, pan := safeParse(p, s)
	if pan != nil {
		obs.pan = pan
		return obs
	}
	if err != nil || rt == nil {
		return obs
	}
	obs.accepted = true
	func() {
		defer func() {
			if x := recover(); x != nil {
				obs.pan = fmt.Sprintf("String() panicked: %v", x)
			}
		}()
		obs.str = rt.String()
	}()
	if obs.pan != nil {
		return obs
	}
	obs.ast, obs.astErr = fromImpl(rt)
	rt2, err2, pan2 := safeParse(p, obs.str)
	if pan2 != nil {
		obs.pan = pan2
		return obs
	}
	if err2 == nil && rt2 != nil {
		obs.reOK = true
		obs.reAST, _ = fromImpl(rt2)
		obs.reStr = rt2.String()
	}
	return obs
}

// judgeParse judges one input. near (may be nil) is an accepted string at edit
// distance 1 (for the non-triviality rule).
func judgeParse(w *core.W, p *route.Parser, s string, family string, near *string) bool {
	w.Eval()
	c := &parseCase{S: core.B(s)}
	w.Begin("parse", c)
	obs := observeParse(p, s)
	if msg := parserVerdict(s, obs); msg != "" {
		w.Violate("parser", c, fmt.Sprintf("[%s] input %q: %s", family, s, msg))
		return false
	}
	if obs.accepted {
		w.Count("accepted")
		w.Count("accepted:" + family)
		for _, sg := range obs.ast.Segs {
			if sg.Optional {
				w.Count("alt:optional")
			}
			if len(sg.Elems) == 0 {
				w.Count("alt:empty-segment")
			}
			for _, e := range sg.Elems {
				switch {
				case e.IsLit():
					w.Count("alt:ident")
				case e.IsBind():
					w.Count("alt:{ident}")
				default:
					w.Count("alt:parameter-list")
					if len(e.Params) > 1 {
						w.Count("alt:parameter-list>1")
					}
					for _, pr := range e.Params {
						if pr.IsRegex {
							w.Count("alt:regex-value")
						} else {
							w.Count("alt:literal-value")
						}
					}
				}
			}
		}
		if obs.str != s {
			w.Count("accepted-noncanonical-input")
		}
		w.NonTrivial(core.Hash64("acc", s), func() interface{} {
			return map[string]interface{}{"input": core.B(s), "verdict": "accepted", "canonical": obs.str, "family": family}
		})
	} else {
		w.Count("rejected")
		if near != nil {
			w.Count("rejected-one-edit-from-accepted")
			w.NonTrivial(core.Hash64("rej1", s), func() interface{} {
				return map[string]interface{}{"input": core.B(s), "verdict": "rejected", "one_edit_from_accepted": *near, "family": family}
			})
		}
	}
	if len(s) < 60 {
		w.Sample(func() interface{} {
			return map[string]interface{}{"input": core.B(s), "accepted": obs.accepted, "family": family}
		})
	}
	return true
}

var c06Chars = []string{"/", "?", "{", "}", ":", ",", " ", "a", "*", "[", "\t", "^", "$"}
var c06Tokens = []string{"/", "?", "{", "}", ":", ",", " ", "a", "**", "capture", "/[0-9]+/", "x: ", "{x}", "b.c"}

func powInt(b, e int) int {
	n := 1
	for i := 0; i < e; i++ {
		n *= b
	}
	return n
}

// nthString decodes index i into the i-th string of exactly `length` symbols.
func nthString(alpha []string, length, i int) string {
	var sb strings.Builder
	for k := 0; k < length; k++ {
		sb.WriteString(alpha[i%len(alpha)])
		i /= len(alpha)
	}
	return sb.String()
}

func runC06(r *core.Run) {
	r.Rule("(a) exhaustive: every string '/'+s with |s|<=L-1 over the 13-symbol character alphabet {/ ? { } : , blank a * [ tab ^ $} and every string not starting with '/' up to length 4; every '/'+t over a 14-token alphabet (/ ? { } : , blank a ** capture /[0-9]+/ 'x: ' {x} b.c) up to K tokens; (b) random derivations of the grammar rendered with random blanks, then 0-2 byte edits; families of routes sharing a prefix parsed one after the other on one parser, every result re-inspected after the last parse; (c) arbitrary byte strings incl. NUL/non-UTF-8 and very long inputs; (d) every BMP code point inserted at six grammar positions. Oracle: independent recursive-descent recogniser/parser of the documented token-level EBNF with pinned terminal classes; fixpoint of the canonical rendering. non-trivial = distinct accepted strings plus distinct rejected strings one edit away from an accepted one")
	r.Assume("terminal classes ident/regex are pinned to the lexer's classes at design time (README's first BNF drifted, see DESIGN §6)")
	c06Canaries(r)

	L, K := 6, 4
	if r.Thorough() {
		L, K = 8, 6
	}
	// long inputs first: whatever they leave behind (pools, caches) is then exposed to the whole rest of the run
	longs := []string{
		"/{" + strings.Repeat("b", 300) + "}",
		"/{x: " + strings.Repeat("v", 256) + "}",
		"/{" + strings.Repeat("n", 255) + ": /[0-9]+/}",
		"/" + strings.Repeat("a", 255) + "/" + strings.Repeat("b", 256) + "/" + strings.Repeat("c", 257),
		"/" + strings.Repeat("s", 70<<10) + "/after",
		strings.Repeat("/a", 200000),
		"/" + strings.Repeat("{", 100000),
		"/" + strings.Repeat("{x}", 50000),
		"/{x: /" + strings.Repeat("a", 300000) + "/}",
		"/" + strings.Repeat("a", 1000000),
		"/{a: b" + strings.Repeat(", c: d", 20000) + "}",
		strings.Repeat("/{x: /[0-9]+/}-{y}", 20000),
		"/" + strings.Repeat("{x: ", 50000),
		"/" + strings.Repeat("?", 100000),
		"/{x:" + strings.Repeat(" ", 200000) + "y}",
		// repetition counts beyond 2^18 (a grammar repetition is not bounded by a count)
		strings.Repeat("/a", 270000),
		"/" + strings.Repeat("{a}", 270000),
		"/{x:" + strings.Repeat(" ", 300000) + "y}",
	}
	if r.Thorough() {
		longs = append(longs, strings.Repeat("/", 300000), "/{a: b"+strings.Repeat(",a: b", 270000)+"}", "/{a: b,"+strings.Repeat(" ", 300000)+"c: d}")
	}
	r.Parallel("long", len(longs), func(w *core.W, _ *rand.Rand, i int) {
		c := &parseCase{S: core.B(longs[i])}
		w.Begin("parse", c)
		w.Count("long-inputs")
		judgeParse(w, parserOf(w), longs[i], "long", nil)
	})

	exhaustive := 0
	// (a1) characters, strings starting with '/'
	for length := 0; length <= L-1; length++ {
		total := powInt(len(c06Chars), length)
		const block = 4096
		nb := (total + block - 1) / block
		length := length
		r.Parallel(fmt.Sprintf("chars%d", length), nb, func(w *core.W, _ *rand.Rand, bi int) {
			p := parserOf(w)
			for i := bi * block; i < (bi+1)*block && i < total; i++ {
				if !judgeParse(w, p, "/"+nthString(c06Chars, length, i), "exhaustive-chars", nil) {
					return
				}
			}
		})
		exhaustive += total
	}
	// (a2) strings not starting with '/', up to length 4
	for length := 0; length <= 4; length++ {
		total := powInt(len(c06Chars), length)
		length := length
		r.Parallel(fmt.Sprintf("noslash%d", length), (total+4095)/4096, func(w *core.W, _ *rand.Rand, bi int) {
			p := parserOf(w)
			for i := bi * 4096; i < (bi+1)*4096 && i < total; i++ {
				s := nthString(c06Chars, length, i)
				if strings.HasPrefix(s, "/") {
					continue
				}
				w.Count("exhaustive-noslash")
				if !judgeParse(w, p, s, "exhaustive-noslash", nil) {
					return
				}
			}
		})
	}
	// (a3) tokens
	for length := 0; length <= K; length++ {
		total := powInt(len(c06Tokens), length)
		length := length
		r.Parallel(fmt.Sprintf("tokens%d", length), (total+4095)/4096, func(w *core.W, _ *rand.Rand, bi int) {
			p := parserOf(w)
			for i := bi * 4096; i < (bi+1)*4096 && i < total; i++ {
				if !judgeParse(w, p, "/"+nthString(c06Tokens, length, i), "exhaustive-tokens", nil) {
					return
				}
			}
		})
		exhaustive += total
	}
	r.Extra("exhaustive_subspace", map[string]interface{}{
		"char_alphabet": c06Chars, "max_len_after_slash": L - 1,
		"token_alphabet": c06Tokens, "max_tokens_after_slash": K,
		"strings_enumerated": exhaustive + int(r.Counter("exhaustive-noslash")),
	})
	r.SetExhaustive(true)
	r.Note("exhaustive:true refers to the enumerated sub-space described in exhaustive_subspace only; the random families are sampled")

	// (b) derivations with random blanks and 0-2 byte edits
	nRand := r.N(150000, 6000000)
	r.Parallel("deriv", nRand, func(w *core.W, rng *rand.Rand, i int) {
		p := parserOf(w)
		s := randomDerivationText(rng)
		if !judgeParse(w, p, s, "derivation", nil) {
			return
		}
		cur := s
		for k := rng.Intn(3); k > 0; k-- {
			prev := cur
			cur = byteEdit(rng, cur)
			var near *string
			if _, err := rmodel.Parse(prev); err == nil {
				near = &prev
			}
			if !judgeParse(w, p, cur, "derivation-edited", near) {
				return
			}
		}
	})
	// (b1) what a parse returned stays what it was: families of routes that share a prefix (a base of 1-8 segments and
	// 2-4 extensions of it, as an application declares them) are parsed one after the other on one parser; after
	// the last parse every earlier result must still render and read as it did when it was returned
	r.Parallel("retained", r.N(20000, 1000000), func(w *core.W, rng *rand.Rand, i int) {
		p := parserOf(w)
		cfg := gen.Cfg{AllowRoot: false, MaxSegs: 8}
		pool := gen.GenPool(rng, cfg)
		base := gen.GenRoute(rng, pool, cfg)
		for len(base.Segs) < 1+rng.Intn(8) {
			base.Segs = append(base.Segs, pool[rng.Intn(len(pool))])
		}
		for si := range base.Segs {
			base.Segs[si].Optional = false
		}
		texts := []string{base.Render()}
		for k := 2 + rng.Intn(3); k > 0; k-- {
			ext := &rmodel.Route{Segs: append(append([]rmodel.Segment{}, base.Segs...), pool[rng.Intn(len(pool))])}
			if rng.Intn(3) == 0 {
				ext.Segs = append(ext.Segs, pool[rng.Intn(len(pool))])
			}
			texts = append(texts, ext.Render())
		}
		if rng.Intn(4) == 0 {
			texts[0], texts[len(texts)-1] = texts[len(texts)-1], texts[0] // the base comes last
		}
		c := &parseCase{S: core.B(strings.Join(texts, "\n"))}
		w.Begin("parse-family", c)
		w.Eval()
		type kept struct {
			rt  *route.Route
			str string
			ast *rmodel.Route
		}
		var keep []kept
		for _, t := range texts {
			rt, err, pan := safeParse(p, t)
			if pan != nil || err != nil || rt == nil {
				if _, merr := rmodel.Parse(t); merr == nil {
					w.Violate("parser", c, fmt.Sprintf("[retained] %q is in the grammar and was not accepted: %v %v", t, err, pan))
				}
				return
			}
			ast, _ := fromImpl(rt)
			keep = append(keep, kept{rt, rt.String(), ast})
		}
		for j, k := range keep {
			ast, _ := fromImpl(k.rt)
			if now := k.rt.String(); now != k.str || ast == nil || k.ast == nil || !ast.Equal(k.ast) {
				w.Violate("parser", c, fmt.Sprintf("[retained] the route returned for %q rendered as %q when it was returned and renders as %q after %d more routes were parsed on the same parser", texts[j], k.str, k.rt.String(), len(keep)-1-j))
				return
			}
		}
		w.Count("families-reinspected-after-later-parses")
		w.NonTrivial(core.Hash64("fam", string(c.S)), func() interface{} { return map[string]interface{}{"family": texts} })
	})
	// (b2) whole valid routes inside a wrapper, and multi-character idioms (common regular-expression and quoting
	// habits) dropped into valid routes - inside expressions, literals and between tokens. A tolerant lexer rule
	// or pre-processing step shows only for such coordinated sequences, never for a single edited byte. The
	// reference recogniser decides what each of these strings is.
	wrappers := [][2]string{{`"`, `"`}, {"'", "'"}, {"`", "`"}, {"(", ")"}, {"<", ">"}, {"[", "]"}, {" ", ""}, {"", " "}, {"\t", ""}, {"", "\n"}, {"", "\r\n"}, {"\ufeff", ""}, {"", "\x00"}, {"^", "$"}, {"^", ""}, {"", "$"}, {"", "/?"}, {"", "#x"}, {"", "?x=1"}, {"GET ", ""}, {"//", ""}, {"./", ""}, {"http://h", ""}}
	idioms := []string{"[^/]", "[^/]+", "[^/]*", "^", "$", "(?i)", "(?:", "\\/", ".*?", "[[:alpha:]]", "\\d+", "{2,3}", `"`, "'", "%2F", "%2f", "%00", "**", "***", ":", "::", "{{", "}}", "{}", "/*", "*/", "<!--", "\\", "\\\\", ", ", " ,", ";", "&&", "||", "\u200b", "\u00a0"}
	r.Parallel("idioms", r.N(60000, 2000000), func(w *core.W, rng *rand.Rand, i int) {
		p := parserOf(w)
		s := randomDerivationText(rng)
		if rng.Intn(3) == 0 {
			wr := wrappers[rng.Intn(len(wrappers))]
			w.Count("wrapped-valid-routes")
			judgeParse(w, p, wr[0]+s+wr[1], "wrapped", &s)
			return
		}
		id := idioms[rng.Intn(len(idioms))]
		// positions: anywhere, or just inside an expression value if there is one
		j := rng.Intn(len(s) + 1)
		if k := strings.Index(s, ": /"); k >= 0 && rng.Intn(2) == 0 {
			end := strings.Index(s[k+3:], "/")
			if end > 0 {
				j = k + 3 + rng.Intn(end+1)
				w.Count("idiom-inside-expression")
			}
		}
		w.Count("idiom-insertions")
		judgeParse(w, p, s[:j]+id+s[j:], "idiom", &s)
	})
	r.GateCounter("wrapped-valid-routes", 1000)
	r.GateCounter("idiom-inside-expression", 1000)
	r.GateCounter("families-reinspected-after-later-parses", 5000)
	// (c) arbitrary bytes
	r.Parallel("bytes", r.N(50000, 4000000), func(w *core.W, rng *rand.Rand, i int) {
		p := parserOf(w)
		n := rng.Intn(24)
		b := make([]byte, n)
		for j := range b {
			switch rng.Intn(4) {
			case 0:
				b[j] = byte(rng.Intn(256))
			default:
				const alpha = "/?{}:, a*[]\\|.+-_~@!$&'();%=09zZ\t\n\x00\xff"
				b[j] = alpha[rng.Intn(len(alpha))]
			}
		}
		s := string(b)
		if rng.Intn(2) == 0 {
			s = "/" + s
		}
		judgeParse(w, p, s, "bytes", nil)
	})
	// (d) every code point of the Basic Multilingual Plane (and a few beyond) at six positions: segment literal,
	// bind name, parameter name, literal value, regex value, between elements. The grammar is ASCII-only, so
	// e.g. Unicode case folding in a token class must not widen it.
	templates := []string{"/%s", "/a%sb", "/{%s}", "/{%s: x}", "/{x: %s}", "/{x: /%s/}"}
	const cpBlock = 1024
	totalCP := 0x10000 + 64
	r.Parallel("codepoints", (totalCP+cpBlock-1)/cpBlock, func(w *core.W, _ *rand.Rand, bi int) {
		p := parserOf(w)
		for cp := bi * cpBlock; cp < (bi+1)*cpBlock && cp < totalCP; cp++ {
			r := rune(cp)
			if cp >= 0x10000 {
				r = rune(0x1F600 + cp - 0x10000)
			}
			if r >= 0xD800 && r <= 0xDFFF {
				continue
			}
			for _, t := range templates {
				w.Count("codepoint-insertions")
				if !judgeParse(w, p, fmt.Sprintf(t, string(r)), "codepoint", nil) {
					return
				}
			}
		}
	})
	r.Gate("distinct accepted strings", r.Counter("accepted"), 2000)
	r.GateCounter("codepoint-insertions", 6*63000)
	for _, k := range []string{"alt:ident", "alt:{ident}", "alt:parameter-list", "alt:parameter-list>1", "alt:literal-value", "alt:regex-value", "alt:optional", "alt:empty-segment", "accepted-noncanonical-input", "rejected-one-edit-from-accepted", "accepted:exhaustive-chars", "accepted:exhaustive-tokens", "accepted:derivation", "long-inputs", "accepted:codepoint"} {
		r.GateCounter(k, 1)
	}
}

// randomDerivationText renders a random derivation with random spelling of blanks.
func randomDerivationText(rng *rand.Rand) string {
	cfg := gen.Cfg{AllowRoot: true, MaxSegs: 5}
	pool := gen.GenPool(rng, cfg)
	rt := gen.GenRoute(rng, pool, cfg)
	// add grammatical shapes the dispatch generators avoid: literal values, odd elements, longer lists
	if rng.Intn(4) == 0 {
		extra := []rmodel.Elem{
			{Params: []rmodel.Param{{Name: "k", Value: "lit"}}},
			{Params: []rmodel.Param{{Name: "a", Value: "**"}, {Name: "capture", Value: "zz"}, {Name: "c", Value: `[a-z0-9]{7, 40}`, IsRegex: true}}},
			{Bind: "**"},
			{Bind: "name-1"},
			{Lit: "%E4%BD%A0"},
			{Params: []rmodel.Param{{Name: "**", Value: "**"}, {Name: "capture", Value: "3"}}},
			{Params: []rmodel.Param{{Name: "r", Value: `\d{2}|x, y`, IsRegex: true}}},
		}
		i := rng.Intn(len(rt.Segs))
		e := extra[rng.Intn(len(extra))]
		es := rt.Segs[i].Elems
		if !(e.IsLit() && len(es) > 0 && es[len(es)-1].IsLit()) {
			rt.Segs[i].Elems = append(es, e)
		}
	}
	if rng.Intn(6) == 0 {
		i := rng.Intn(len(rt.Segs))
		rt.Segs[i].Optional = true // possibly non-final: still grammatical
	}
	for si := range rt.Segs {
		for ei := range rt.Segs[si].Elems {
			for pi := range rt.Segs[si].Elems[ei].Params {
				rt.Segs[si].Elems[ei].Params[pi].Blanks = []int{0, 1, 1, 1, 2, 3}[rng.Intn(6)]
				rt.Segs[si].Elems[ei].Params[pi].Lead = []int{0, 1, 1, 1, 2, 3}[rng.Intn(6)]
			}
		}
	}
	s := rt.Render()
	back, err := rmodel.Parse(s)
	if err != nil || !back.Equal(rt) {
		panic(fmt.Sprintf("harness: reference parser disagrees with generated derivation %q: %v", s, err))
	}
	return s
}

func byteEdit(rng *rand.Rand, s string) string {
	j := rng.Intn(len(s) + 1)
	ins := []string{"{", "}", ":", "?", " ", "\t", "[", "]", "^", "\x00", "\xff", ",", "/", "a", "*", "\\", "|", "$", "\n", "é"}[rng.Intn(20)]
	switch rng.Intn(3) {
	case 0:
		return s[:j] + ins + s[j:]
	case 1:
		if j < len(s) {
			return s[:j] + s[j+1:]
		}
		return s
	default:
		if j < len(s) {
			return s[:j] + ins + s[j+1:]
		}
		return s + ins
	}
}

func c06Canaries(r *core.Run) {
	// anchor: the accept/reject expectations of the repository's own TestParser and the route tables of its other
	// tests, transcribed; the reference recogniser must agree with all of them
	anchorOK := true
	for _, s := range []string{"/webapi", "/webapi/users", "/webapi/users/?{id}", "/{name}", "/webapi/{name-1}/{name-2: /[a-z0-9]{7, 40}/}",
		"/webapi/{name-1}/{name-2: /[a-z0-9]{7, 40}/}/{year: regex2}-{month-day}", "/webapi/{name-1}/{name-2: /[a-z0-9]{7, 40}/}/{year: regex2}-{month-day}/{**: **, capture:  3}",
		"/webapi/special/test@$", "/webapi/special/%_", `/webapi/article_{id: /\d+/}_{page: /[\\w]+/}.{ext: /diff|patch/}`, "/webapi/tree/{paths: **}/edit/{name: **}",
		"/webapi/{username}/%E4%BD%A0%E5%A5%BD%E4%B8%96%E7%95%8C/test@$", "/", "/{**}"} {
		if _, err := rmodel.Parse(s); err != nil {
			anchorOK = false
			r.Note("parser anchor: reference recogniser rejects " + s)
		}
	}
	for _, s := range []string{"webapi", "/name}", "/{name", "/{name: [a-z0-9]{7, 40}}", ""} {
		if _, err := rmodel.Parse(s); err == nil {
			anchorOK = false
			r.Note("parser anchor: reference recogniser accepts " + s)
		}
	}
	r.Canary("reference recogniser agrees with the accept/reject expectations of the repository's parser tests", anchorOK)
	want, _ := rmodel.Parse("/a/{x:  /[0-9]+/}")
	good := parserObs{accepted: true, ast: want, str: "/a/{x: /[0-9]+/}", reOK: true, reAST: want, reStr: "/a/{x: /[0-9]+/}"}
	r.Canary("faithful observation passes", parserVerdict("/a/{x:  /[0-9]+/}", good) == "")
	r.Canary("rejecting a grammatical string", parserVerdict("/a/{x:  /[0-9]+/}", parserObs{}) != "")
	r.Canary("accepting an ungrammatical string", parserVerdict("/a/{x :b}", good) != "")
	o := good
	other, _ := rmodel.Parse("/a/{x: /[0-9]/}")
	o.ast = other
	r.Canary("wrong structure", parserVerdict("/a/{x:  /[0-9]+/}", o) != "")
	o = good
	o.str = "/a/{x:/[0-9]+/}"
	r.Canary("rendering without the blank", parserVerdict("/a/{x:  /[0-9]+/}", o) != "")
	o = good
	o.reStr = "/a/{x:  /[0-9]+/}"
	r.Canary("not a fixpoint", parserVerdict("/a/{x:  /[0-9]+/}", o) != "")
	o = good
	o.reOK = false
	r.Canary("canonical form does not re-parse", parserVerdict("/a/{x:  /[0-9]+/}", o) != "")
	r.Canary("panic", parserVerdict("/a", parserObs{pan: "boom"}) != "")
}
