package checks

import (
	"encoding/json"
	"fmt"
	"io"
	"math/rand"
	"net/http"
	"net/http/httptest"
	"net/url"
	"os"
	"reflect"
	"sort"
	"strings"

	"github.com/flamego/flamego"
	"github.com/flamego/flamego/verifharness/core"
)

// progNode is one statement of a registration program (C11).
type progNode struct {
	Op       string     `json:"op"` // verb | group | combo | routes | any | autohead | wrapper | notfound (NotFound(handlers) declared here, possibly inside a group body: the not-found chain belongs to the router, not to the scope it is declared in)
	Path     string     `json:"path,omitempty"`
	Method   string     `json:"method,omitempty"`   // verb
	NH       int        `json:"nh,omitempty"`       // number of own handlers
	Spare    int        `json:"spare,omitempty"`    // spare capacity of the handler slice handed to the router
	Children []progNode `json:"children,omitempty"` // group body
	Methods  []string   `json:"methods,omitempty"`  // combo: verbs in call order (repeats allowed); routes: method names as spelled
	PerM     []int      `json:"per_method,omitempty"`
	PerG     []string   `json:"per_method_group,omitempty"`              // combo: the k-th verb is declared inside Group(PerG[k]) (""=same scope); the Combo value itself was created outside
	PerA     []int      `json:"per_method_autohead,omitempty"`           // combo: AutoHead is switched on (1) / off (2) right before the k-th verb is declared (0 = untouched): a GET is registered when it is declared, not when the Combo was created
	Share    int        `json:"share_prefix,omitempty"`                  // verb: >0 = pass the first Share handlers of the previous verb route's slice (same backing array, same handlers) instead of fresh ones
	Again    string     `json:"same_arguments_again_for_path,omitempty"` // routes/multi: a second Routes call for this path is made with the very same argument slice (extra methods + handlers)
	Spelling string     `json:"spelling,omitempty"`                      // routes: comma | multi
	On       bool       `json:"on,omitempty"`                            // autohead
	Hdr      bool       `json:"headers_chained,omitempty"`               // verb | routes | any: .Headers("X-K", "^v1$") is chained on the value the call returns (it constrains what that call registered itself - not the HEAD twin AutoHead adds)
	W        int        `json:"wrapper,omitempty"`                       // wrapper: HandlerWrapper(k-th wrapper) from here on; 0 = none. A route's handlers (its groups' handlers included) are wrapped with the wrapper in force when the route is registered
}

type progCase struct {
	Classic bool       `json:"instance_made_by_Classic,omitempty"` // the program runs on flamego.Classic() (New + Logger, Recovery, Static): the same router, nothing switched on or off (serial cases; the instance logs to a discarded stdout)
	Body    []progNode `json:"program"`
	Reqs    []progReq  `json:"requests,omitempty"` // empty: derived from the flat expansion
}

type progReq struct {
	Method string `json:"method"`
	Path   string `json:"path"`
}

func init() {
	register(&Check{ID: "C11", Run: runC11, Replay: func(w *core.W, kind string, raw json.RawMessage) {
		var c progCase
		if err := json.Unmarshal(raw, &c); err != nil {
			w.R.Inconclusive("replay case does not decode: " + err.Error())
			return
		}
		w.Begin("program", &c)
		judgeProg(w, &c)
	}})
}

var c11Paths = []string{"/s1", "/s2", "/s3", "/{x}", "/u/{id: /[0-9]+/}", "/s1/t", "/{y}/t", "/f/{p: **}", "/o/?z", "/", "", "s1"}
var c11GroupPaths = []string{"/g1", "/g2", "/{g}", "/api/v1", "", "/api/", "/", "/g1/"}

func genProgBody(rng *rand.Rand, depth int) []progNode {
	n := 1 + rng.Intn(4)
	var out []progNode
	for i := 0; i < n; i++ {
		switch k := rng.Intn(20); {
		case k < 7:
			out = append(out, progNode{Op: "verb", Path: c11Paths[rng.Intn(len(c11Paths))], Method: routerMethods[rng.Intn(len(routerMethods))], NH: 1 + rng.Intn(3), Spare: rng.Intn(2) * 3})
			if rng.Intn(2) == 0 {
				out[len(out)-1].Method = "GET"
			}
			if rng.Intn(6) == 0 {
				out[len(out)-1].Share = 1 + rng.Intn(3) // a prefix of the slice the previous route was given
			} else if depth > 0 && (i+depth)%4 == 0 {
				// (no draw of its own) inside a group a route may have no handlers of its own: its chain is its groups'
				out[len(out)-1].NH = 0
			}
		case k < 11 && depth < 4, k < 11 && depth < 8 && rng.Intn(3) == 0:
			nh := rng.Intn(3)
			if rng.Intn(25) == 0 {
				nh = 3 + rng.Intn(7) // handler lists that cross slice-capacity boundaries when concatenated
			}
			out = append(out, progNode{Op: "group", Path: c11GroupPaths[rng.Intn(len(c11GroupPaths))], NH: nh, Spare: rng.Intn(2) * 2, Children: genProgBody(rng, depth+1)})
		case k < 14:
			nm := 1 + rng.Intn(3)
			pn := progNode{Op: "combo", Path: c11Paths[rng.Intn(len(c11Paths))], NH: rng.Intn(3), Spare: rng.Intn(2) * 3}
			for j := 0; j < nm; j++ {
				pn.Methods = append(pn.Methods, []string{"GET", "POST", "DELETE", "PUT", "HEAD", "PATCH", "OPTIONS", "CONNECT", "TRACE"}[rng.Intn(9)])
				pn.PerM = append(pn.PerM, rng.Intn(3))
				g := ""
				if rng.Intn(5) == 0 {
					g = []string{"/cg", "/g1", ""}[rng.Intn(3)]
				}
				pn.PerG = append(pn.PerG, g)
				a := 0
				if rng.Intn(5) == 0 {
					a = 1 + rng.Intn(2)
				}
				pn.PerA = append(pn.PerA, a)
			}
			out = append(out, pn)
		case k < 16:
			pn := progNode{Op: "routes", Path: c11Paths[rng.Intn(len(c11Paths))], NH: 1 + rng.Intn(2), Spare: rng.Intn(2) * 3, Spelling: []string{"comma", "multi"}[rng.Intn(2)]}
			for j := 1 + rng.Intn(3); j > 0; j-- {
				m := routerMethods[rng.Intn(len(routerMethods))]
				switch rng.Intn(6) {
				case 0:
					m = strings.ToLower(m)
				case 1:
					if pn.Spelling == "comma" {
						m = " " + m + " "
					}
				}
				pn.Methods = append(pn.Methods, m)
			}
			if pn.Spelling == "multi" && rng.Intn(4) == 0 {
				pn.Again = c11Paths[rng.Intn(len(c11Paths))]
			}
			out = append(out, pn)
		case k < 18:
			out = append(out, progNode{Op: "any", Path: c11Paths[rng.Intn(len(c11Paths))], NH: 1 + rng.Intn(2), Spare: rng.Intn(2) * 3})
		default:
			if rng.Intn(4) == 0 {
				out = append(out, progNode{Op: "notfound", NH: 1 + rng.Intn(2), Spare: rng.Intn(2) * 2})
			} else if rng.Intn(3) == 0 {
				out = append(out, progNode{Op: "wrapper", W: rng.Intn(3)})
			} else {
				out = append(out, progNode{Op: "autohead", On: rng.Intn(3) != 0})
			}
		}
		if l := &out[len(out)-1]; (l.Op == "verb" || l.Op == "routes" || l.Op == "any") && rng.Intn(7) == 0 {
			l.Hdr = true
		}
	}
	return out
}

// ---- the flattener (specification) ------------------------------------------------

type flatReg struct {
	Step   int // program statement (pre-order number) it expands
	Method string
	Path   string
	HS     []int
	W      int  // wrapper in force at the statement
	Hdr    bool // the statement chains Headers() and this registration is what the call returned
}

type flattener struct {
	lastIDs  []int
	gpath    []string
	ghs      [][]int
	auto     bool
	nextH    int
	step     int
	wrap     int
	out      []flatReg
	refusedC map[int]string // combo statements that must be refused for a repeated method, by step
	nf       []int          // handlers of the last NotFound statement (nil: the default not-found handler)
	nfW      int            // wrapper in force when it was declared
}

func (fl *flattener) ids(n int) []int {
	var out []int
	for i := 0; i < n; i++ {
		fl.nextH++
		out = append(out, fl.nextH)
	}
	return out
}

func (fl *flattener) add(step int, method, p string, ids []int) {
	var hs []int
	for _, g := range fl.ghs {
		hs = append(hs, g...)
	}
	hs = append(hs, ids...)
	fl.out = append(fl.out, flatReg{Step: step, Method: method, Path: strings.Join(fl.gpath, "") + p, HS: hs, W: fl.wrap})
}

func (fl *flattener) markHdr(from int) {
	for i := from; i < len(fl.out); i++ {
		fl.out[i].Hdr = true
	}
}

func (fl *flattener) body(nodes []progNode) {
	for _, n := range nodes {
		fl.step++
		step := fl.step
		switch n.Op {
		case "verb":
			var ids []int
			if n.Share > 0 && len(fl.lastIDs) > 0 {
				k := n.Share
				if k > len(fl.lastIDs) {
					k = len(fl.lastIDs)
				}
				ids = fl.lastIDs[:k]
			} else {
				ids = fl.ids(n.NH)
				fl.lastIDs = ids
			}
			from := len(fl.out)
			fl.add(step, n.Method, n.Path, ids)
			if n.Hdr {
				fl.markHdr(from)
			}
			if n.Method == "GET" && fl.auto {
				fl.add(step, "HEAD", n.Path, ids)
			}
		case "group":
			gids := fl.ids(n.NH)
			fl.gpath = append(fl.gpath, n.Path)
			fl.ghs = append(fl.ghs, gids)
			fl.body(n.Children)
			fl.gpath = fl.gpath[:len(fl.gpath)-1]
			fl.ghs = fl.ghs[:len(fl.ghs)-1]
		case "combo":
			cids := fl.ids(n.NH)
			used := map[string]bool{}
			for j, m := range n.Methods {
				fl.step++
				ids := fl.ids(n.PerM[j])
				if j < len(n.PerA) && n.PerA[j] != 0 {
					fl.auto = n.PerA[j] == 1
				}
				if used[m] {
					fl.refusedC[fl.step] = m
					continue
				}
				used[m] = true
				all := append(append([]int{}, cids...), ids...)
				g := ""
				if j < len(n.PerG) {
					g = n.PerG[j]
				}
				// the verb is declared inside Group(g): the route gets the group prefix of the scope the call is made in
				fl.gpath = append(fl.gpath, g)
				fl.ghs = append(fl.ghs, nil)
				fl.add(fl.step, m, n.Path, all)
				if m == "GET" && fl.auto {
					fl.add(fl.step, "HEAD", n.Path, all)
				}
				fl.gpath = fl.gpath[:len(fl.gpath)-1]
				fl.ghs = fl.ghs[:len(fl.ghs)-1]
			}
		case "routes":
			ids := fl.ids(n.NH)
			from := len(fl.out)
			for _, m := range n.Methods {
				fl.add(step, strings.ToUpper(strings.TrimSpace(m)), n.Path, ids)
			}
			if n.Hdr {
				fl.markHdr(from)
			}
			if n.Again != "" && n.Spelling == "multi" {
				fl.step++
				for _, m := range n.Methods {
					fl.add(fl.step, strings.ToUpper(strings.TrimSpace(m)), n.Again, ids)
				}
			}
		case "any":
			ids := fl.ids(n.NH)
			from := len(fl.out)
			for _, m := range routerMethods {
				fl.add(step, m, n.Path, ids)
			}
			if n.Hdr {
				fl.markHdr(from)
			}
		case "autohead":
			fl.auto = n.On
		case "wrapper":
			fl.wrap = n.W
		case "notfound":
			fl.nf, fl.nfW = fl.ids(n.NH), fl.wrap
		}
	}
}

// ---- executing the program on the real router ----------------------------------------

type progExec struct {
	lastHS  []flamego.Handler
	f       *flamego.Flame
	tr      *[]string
	params  *map[string]string
	nextH   int
	step    int
	panics  map[int]string // step -> panic text
	partial map[int]bool
}

func (x *progExec) hs(n, spare int) []flamego.Handler {
	hs := make([]flamego.Handler, 0, n+spare)
	for i := 0; i < n; i++ {
		x.nextH++
		hs = append(hs, traceHandler(x.nextH, x.tr, x.params))
	}
	return hs
}

func traceHandler(id int, tr *[]string, params *map[string]string) flamego.Handler {
	body := func(c flamego.Context) {
		*tr = append(*tr, fmt.Sprint(id))
		cp := map[string]string{}
		for k, v := range c.Params() {
			cp[k] = v
		}
		*params = cp
	}
	if id%2 == 1 {
		// a signature without a built-in fast path: these are the handlers a HandlerWrapper applies to
		return func(c flamego.Context, _ *http.Request) { body(c) }
	}
	if id%6 == 4 {
		// a named function type that can print itself (String): a handler, wherever it stands in an argument list
		return c11NamedHandler(body)
	}
	return body
}

// c11NamedHandler: a handler of a named function type with a String method.
type c11NamedHandler func(flamego.Context)

func (c11NamedHandler) String() string { return "audit" }

// traceWrapper is the k-th HandlerWrapper: it leaves its mark in the trace and runs the handler it was given.
func traceWrapper(k int, tr *[]string) func(flamego.Handler) flamego.Handler {
	if k == 0 {
		return nil
	}
	return func(h flamego.Handler) flamego.Handler {
		return func(c flamego.Context, _ http.ResponseWriter) {
			*tr = append(*tr, fmt.Sprintf("w%d(", k))
			if _, err := c.Invoke(h); err != nil {
				*tr = append(*tr, "invoke-error:"+err.Error())
			}
			*tr = append(*tr, ")")
		}
	}
}

const c11HdrName, c11HdrExpr = "X-K", "^v1$"

func (x *progExec) guarded(step int, fn func()) {
	defer func() {
		if p := recover(); p != nil {
			x.panics[step] = fmt.Sprint(p)
		}
	}()
	fn()
}

func (x *progExec) body(nodes []progNode) {
	f := x.f
	for _, n := range nodes {
		n := n
		x.step++
		step := x.step
		switch n.Op {
		case "verb":
			var hs []flamego.Handler
			if n.Share > 0 && len(x.lastHS) > 0 {
				k := n.Share
				if k > len(x.lastHS) {
					k = len(x.lastHS)
				}
				hs = x.lastHS[:k] // same backing array, same handler values as the previous route
			} else {
				hs = x.hs(n.NH, n.Spare)
				x.lastHS = hs
			}
			x.guarded(step, func() {
				var rt *flamego.Route
				switch n.Method {
				case "GET":
					rt = f.Get(n.Path, hs...)
				case "POST":
					rt = f.Post(n.Path, hs...)
				case "PUT":
					rt = f.Put(n.Path, hs...)
				case "DELETE":
					rt = f.Delete(n.Path, hs...)
				case "PATCH":
					rt = f.Patch(n.Path, hs...)
				case "OPTIONS":
					rt = f.Options(n.Path, hs...)
				case "HEAD":
					rt = f.Head(n.Path, hs...)
				case "CONNECT":
					rt = f.Connect(n.Path, hs...)
				case "TRACE":
					rt = f.Trace(n.Path, hs...)
				}
				if n.Hdr && rt != nil {
					rt.Headers(c11HdrName, c11HdrExpr)
				}
			})
		case "group":
			ghs := x.hs(n.NH, n.Spare)
			// every statement of the body is guarded on its own, so fn always returns normally
			f.Group(n.Path, func() { x.body(n.Children) }, ghs...)
		case "combo":
			chs := x.hs(n.NH, n.Spare)
			var cb *flamego.ComboRoute
			x.guarded(step, func() { cb = f.Combo(n.Path, chs...) })
			for j, m := range n.Methods {
				x.step++
				hs := x.hs(n.PerM[j], 0)
				if j < len(n.PerA) && n.PerA[j] != 0 {
					f.AutoHead(n.PerA[j] == 1)
				}
				if cb == nil {
					continue
				}
				call := x.guarded
				if j < len(n.PerG) && n.PerG[j] != "" {
					g := n.PerG[j]
					call = func(step int, fn func()) {
						f.Group(g, func() { x.guarded(step, fn) })
					}
				}
				call(x.step, func() {
					switch m {
					case "GET":
						cb.Get(hs...)
					case "POST":
						cb.Post(hs...)
					case "DELETE":
						cb.Delete(hs...)
					case "PUT":
						cb.Put(hs...)
					case "HEAD":
						cb.Head(hs...)
					case "PATCH":
						cb.Patch(hs...)
					case "OPTIONS":
						cb.Options(hs...)
					case "CONNECT":
						cb.Connect(hs...)
					case "TRACE":
						cb.Trace(hs...)
					}
				})
			}
		case "routes":
			hs := x.hs(n.NH, n.Spare)
			var args []flamego.Handler
			x.guarded(step, func() {
				var rt *flamego.Route
				if n.Spelling == "comma" {
					rt = f.Routes(n.Path, strings.Join(n.Methods, ","), hs...)
				} else {
					args = make([]flamego.Handler, 0, len(n.Methods)+len(hs)+n.Spare)
					for _, m := range n.Methods[1:] {
						args = append(args, m)
					}
					args = append(args, hs...)
					rt = f.Routes(n.Path, n.Methods[0], args...)
				}
				if n.Hdr && rt != nil {
					rt.Headers(c11HdrName, c11HdrExpr)
				}
			})
			if n.Again != "" && n.Spelling == "multi" {
				x.step++
				x.guarded(x.step, func() { f.Routes(n.Again, n.Methods[0], args...) })
			}
		case "any":
			hs := x.hs(n.NH, n.Spare)
			x.guarded(step, func() {
				rt := f.Any(n.Path, hs...)
				if n.Hdr && rt != nil {
					rt.Headers(c11HdrName, c11HdrExpr)
				}
			})
		case "autohead":
			f.AutoHead(n.On)
		case "wrapper":
			f.HandlerWrapper(traceWrapper(n.W, x.tr))
		case "notfound":
			hs := x.hs(n.NH, n.Spare)
			x.guarded(step, func() { f.NotFound(hs...) })
		}
	}
}

func serveTrace(f *flamego.Flame, tr *[]string, params *map[string]string, m, p, hv string) (string, interface{}) {
	*tr = nil
	*params = nil
	rec := httptest.NewRecorder()
	req := &http.Request{Method: m, URL: &url.URL{Path: p}, Header: http.Header{}, RequestURI: p}
	if hv != "" {
		req.Header.Set(c11HdrName, hv)
	}
	var pan interface{}
	func() {
		defer func() { pan = recover() }()
		f.ServeHTTP(rec, req)
	}()
	keys := make([]string, 0, len(*params))
	for k := range *params {
		keys = append(keys, k)
	}
	sort.Strings(keys)
	var ps []string
	for _, k := range keys {
		ps = append(ps, k+"="+(*params)[k])
	}
	return fmt.Sprintf("status=%d handlers=%v params=%v", rec.Code, *tr, ps), pan
}

var c11Inst = map[string][]string{
	"{x}": {"a", "s1", "7"}, "{y}": {"b", "s1"}, "{g}": {"g1", "zz"}, "{id: /[0-9]+/}": {"12", "x"}, "{p: **}": {"a/b", "c"}, "?z": {"z", ""},
}

func instPaths(routePath string) []string {
	outs := []string{""}
	for _, seg := range strings.Split(strings.TrimPrefix(routePath, "/"), "/") {
		alts := []string{seg}
		if a, ok := c11Inst[seg]; ok {
			alts = a
		}
		var next []string
		for _, o := range outs {
			for _, a := range alts {
				if seg == "?z" && a == "" {
					next = append(next, o)
					continue
				}
				next = append(next, o+"/"+a)
			}
		}
		outs = next
		if len(outs) > 6 {
			outs = outs[:6]
		}
	}
	for i := range outs {
		if outs[i] == "" {
			outs[i] = "/"
		}
	}
	return outs
}

func judgeProg(w *core.W, c *progCase) {
	w.Eval()
	// A: the program on the real router
	var trA []string
	var pA map[string]string
	x := &progExec{f: flamego.NewWithLogger(io.Discard), tr: &trA, params: &pA, panics: map[int]string{}}
	if c.Classic {
		// Classic() logs to the stdout of the moment it is called
		old := os.Stdout
		if null, err := os.OpenFile(os.DevNull, os.O_WRONLY, 0); err == nil {
			defer null.Close()
			os.Stdout = null
		}
		x.f = flamego.Classic()
		os.Stdout = old
		w.Count("instances-made-by-Classic")
	}
	x.body(c.Body)
	// B: the flat expansion, one single-method registration at a time
	fl := &flattener{refusedC: map[int]string{}}
	fl.body(c.Body)
	if fl.nextH != x.nextH || fl.step != x.step {
		panic("harness: flattener and executor disagree on statement/handler numbering")
	}
	var trB []string
	var pB map[string]string
	fb := flamego.NewWithLogger(io.Discard)
	flatPanics := map[int]string{}
	chained := map[int][]*flamego.Route{}
	for _, fr := range fl.out {
		if _, dead := flatPanics[fr.Step]; dead {
			continue // the program statement stopped at its first refused expansion
		}
		var hs []flamego.Handler
		for _, id := range fr.HS {
			hs = append(hs, traceHandler(id, &trB, &pB))
		}
		func() {
			defer func() {
				if p := recover(); p != nil {
					flatPanics[fr.Step] = fmt.Sprint(p)
				}
			}()
			fb.HandlerWrapper(traceWrapper(fr.W, &trB))
			rt := fb.Route(fr.Method, fr.Path, hs)
			if fr.Hdr {
				chained[fr.Step] = append(chained[fr.Step], rt)
			}
		}()
	}
	if fl.nf != nil {
		var hs []flamego.Handler
		for _, id := range fl.nf {
			hs = append(hs, traceHandler(id, &trB, &pB))
		}
		fb.HandlerWrapper(traceWrapper(fl.nfW, &trB))
		fb.NotFound(hs...)
		w.Count("not-found-chain-declared-by-the-program")
	}
	// Headers() is chained on what the call returns: a statement that was refused half-way returns nothing
	for st, rts := range chained {
		if _, dead := flatPanics[st]; dead {
			continue
		}
		for _, rt := range rts {
			rt.Headers(c11HdrName, c11HdrExpr)
		}
	}
	for st, m := range fl.refusedC {
		if _, ok := x.panics[st]; !ok {
			w.Violate("combo-twice", c, fmt.Sprintf("statement %d: Combo accepted method %s a second time", st, m))
			return
		}
		delete(x.panics, st)
		w.Count("combo-refused-repeated-method")
	}
	// statement-level panic agreement
	for st := 1; st <= x.step; st++ {
		_, a := x.panics[st]
		_, b := flatPanics[st]
		if a != b {
			w.Violate("panic-disagreement", c, fmt.Sprintf("statement %d: program panics=%v (%s), flat expansion panics=%v (%s)", st, a, x.panics[st], b, flatPanics[st]))
			return
		}
		if a {
			w.Count("statement-refused-in-both")
		}
	}
	// requests
	reqs := c.Reqs
	if len(reqs) == 0 {
		seen := map[string]bool{}
		for _, fr := range fl.out {
			if seen[fr.Path] {
				continue
			}
			seen[fr.Path] = true
			for _, p := range instPaths(fr.Path) {
				for _, m := range routerMethods {
					reqs = append(reqs, progReq{m, p})
				}
			}
		}
	}
	hvs := []string{""}
	for _, fr := range fl.out {
		if fr.Hdr {
			hvs = []string{"", "v1", "v2"} // some registration is constrained: every request is made without, with a passing and with a failing value
			break
		}
	}
	for _, rq := range reqs {
		for _, hv := range hvs {
			a, pa := serveTrace(x.f, &trA, &pA, rq.Method, rq.Path, hv)
			b, pb := serveTrace(fb, &trB, &pB, rq.Method, rq.Path, hv)
			w.Count("requests-compared")
			if pa != nil || pb != nil {
				w.Violate("serve-panic", c, fmt.Sprintf("%s %q: program instance panic=%v, flat instance panic=%v", rq.Method, rq.Path, pa, pb))
				return
			}
			if a != b {
				w.Violate("flat-expansion", c, fmt.Sprintf("%s %q (%s: %q):\n program instance: %s\n flat expansion:   %s", rq.Method, rq.Path, c11HdrName, hv, a, b))
				return
			}
		}
	}
	// coverage
	nt, feats := progFeatures(c.Body, 0, false)
	for _, f := range feats {
		w.Count("feature:" + f)
	}
	if nt {
		b, _ := json.Marshal(c.Body)
		w.NonTrivial(core.Hash64(string(b)), func() interface{} {
			return map[string]interface{}{"program": c.Body, "flat_expansion": fl.out}
		})
	}
	w.Sample(func() interface{} {
		return map[string]interface{}{"program": c.Body, "flat_registrations": len(fl.out)}
	})
	_ = reflect.DeepEqual
}

func progFeatures(nodes []progNode, depth int, inGroup bool) (bool, []string) {
	nt := false
	var feats []string
	sawNested := false
	after := 0
	for _, n := range nodes {
		if n.Hdr {
			feats = append(feats, "headers-chained")
		}
		switch n.Op {
		case "group":
			if depth+1 >= 2 {
				feats = append(feats, "nesting>=2")
			}
			sub, f2 := progFeatures(n.Children, depth+1, true)
			nt = nt || sub
			feats = append(feats, f2...)
			sawNested = true
			if n.NH > 0 {
				feats = append(feats, "group-handlers")
			}
		case "combo":
			if len(n.Methods) >= 2 {
				nt = true
				feats = append(feats, "combo>=2")
			}
			for _, a := range n.PerA {
				if a != 0 {
					feats = append(feats, "autohead-switched-between-combo-verbs")
					break
				}
			}
			if n.Spare > 0 && n.NH > 0 && len(n.Methods) >= 2 {
				feats = append(feats, "combo-spare-capacity")
			}
			if sawNested {
				after++
			}
		case "wrapper":
			if inGroup {
				nt = true
				feats = append(feats, "wrapper-changed-inside-group")
			}
			feats = append(feats, "wrapper")
		case "autohead":
			if inGroup {
				nt = true
				feats = append(feats, "autohead-inside-group")
			}
			feats = append(feats, "autohead")
		case "routes":
			feats = append(feats, "routes-"+n.Spelling)
			if n.Again != "" && n.Spelling == "multi" {
				feats = append(feats, "routes-arguments-passed-again")
			}
			if sawNested {
				after++
			}
		case "any":
			feats = append(feats, "any")
			if sawNested {
				after++
			}
		default:
			if sawNested {
				after++
			}
		}
	}
	if depth >= 1 && after >= 2 {
		nt = true
		feats = append(feats, "siblings-after-nested-group")
	}
	return nt, feats
}

func runC11(r *core.Run) {
	r.Rule("random registration programs (trees up to depth 4): verb routes, groups with 0-2 handlers (also with an empty or dynamic group path), Combo chains (1-3 verbs, repeats allowed), Routes in both spellings (lower-case / padded names), Any, AutoHead toggles and HandlerWrapper changes (two wrappers, none) at random points, also inside group bodies; half of the handlers have a signature the wrapper applies to; Headers() chained on one in seven verb/Routes/Any calls (requests then go without, with a passing and with a failing value); handler slices handed over with spare capacity; paths from a small pool with dynamic, optional and match-all segments so that duplicates and conflicts occur. Oracle: an identically numbered flat list of single-method registrations produced by the harness's own flattener is registered on a second instance; for every method x instance path the (status, handler-id trace, parameters) must be equal, statements must be refused in both or neither, Combo must refuse a repeated verb. non-trivial = distinct programs with >=2 sibling routes after a nested group inside a group, or a Combo with >=2 verbs, or AutoHead toggled inside a group")
	c11Canaries(r)
	n := r.N(15000, 1200000)
	r.Parallel("prog", n, func(w *core.W, rng *rand.Rand, i int) {
		c := &progCase{Body: genProgBody(rng, 0)}
		w.Begin("program", c)
		judgeProg(w, c)
	})
	ws := r.Serial()
	for i := 0; i < r.N(400, 8000); i++ {
		c := &progCase{Classic: true, Body: genProgBody(r.Rand("prog-classic", i), 0)}
		ws.Begin("program", c)
		judgeProg(ws, c)
	}
	ws.Done()
	ws.Merge()
	r.GateCounter("instances-made-by-Classic", 100)
	r.Gate("distinct_nontrivial", r.NonTrivialCount(), 2000)
	for _, k := range []string{"feature:nesting>=2", "feature:combo>=2", "feature:combo-spare-capacity", "feature:autohead-inside-group", "feature:routes-comma", "feature:routes-multi", "feature:any", "feature:group-handlers", "feature:siblings-after-nested-group", "feature:wrapper-changed-inside-group", "feature:wrapper", "feature:headers-chained", "feature:routes-arguments-passed-again", "feature:autohead-switched-between-combo-verbs", "combo-refused-repeated-method", "statement-refused-in-both"} {
		r.GateCounter(k, 20)
	}
	r.GateCounter("requests-compared", int64(n)*20)
}

func c11Canaries(r *core.Run) {
	// the comparator is string equality of (status, trace, params) – feed it the D10 shape
	a := "status=200 handlers=[1 3] params=[route=/c]"
	b := "status=200 handlers=[1 2] params=[route=/c]"
	r.Canary("different handler for the same request", a != b)
	fl := &flattener{refusedC: map[int]string{}}
	fl.body([]progNode{{Op: "group", Path: "/g", NH: 1, Children: []progNode{{Op: "autohead", On: true}, {Op: "verb", Method: "GET", Path: "/x", NH: 1}}}, {Op: "verb", Method: "GET", Path: "/y", NH: 1}})
	ok := len(fl.out) == 4 && fl.out[0].Path == "/g/x" && fl.out[1].Method == "HEAD" && fmt.Sprint(fl.out[0].HS) == "[1 2]" && fl.out[2].Path == "/y" && fmt.Sprint(fl.out[2].HS) == "[3]" && fl.out[3].Method == "HEAD"
	r.Canary("flattener: group prefix/handlers, AutoHead persists after the group, scope restored", ok)
	fl2 := &flattener{refusedC: map[int]string{}}
	fl2.body([]progNode{{Op: "combo", Path: "/c", NH: 1, Methods: []string{"GET", "GET"}, PerM: []int{1, 1}}})
	r.Canary("flattener: repeated combo verb refused", len(fl2.refusedC) == 1 && len(fl2.out) == 1)
}
