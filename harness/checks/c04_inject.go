package checks

import (
	"encoding/json"
	"errors"
	"fmt"
	"io"
	"math/rand"
	"net/http"
	"net/url"
	"reflect"
	"runtime"
	"strings"

	stdlog "log"

	"github.com/charmbracelet/log"

	"github.com/flamego/flamego"
	"github.com/flamego/flamego/inject"
	"github.com/flamego/flamego/verifharness/core"
)

// ---- type universe; every value carries an identity tag ---------------------------

type cI1 interface{ M1() string }
type cI2 interface{ M2() string }
type cI12 interface {
	cI1
	cI2
}

// cI3 is a sealed interface: it has an unexported method, so only types of this package implement it.
type cI3 interface {
	M1() string
	sealed()
}
type cT1 struct{ Tag string }

func (t cT1) M1() string { return t.Tag }
func (t cT1) sealed()    {}

type cT2 struct{ Tag string }

func (t *cT2) M1() string { return t.Tag }
func (t *cT2) M2() string { return t.Tag }

type cT3 struct{ Tag string }

func (t cT3) M2() string { return t.Tag }

type cT4 struct{ Tag string } // implements nothing
type cS string
type cN int

var (
	tyT1  = reflect.TypeOf(cT1{})
	tyPT1 = reflect.TypeOf(&cT1{})
	tyPT2 = reflect.TypeOf(&cT2{})
	tyT2  = reflect.TypeOf(cT2{})                      // by value: implements nothing (its methods have pointer receivers)
	tySS  = reflect.TypeOf([]cS(nil))                  // also the type of a variadic ...cS parameter
	tyRV  = reflect.TypeOf(reflect.Value{})            // a service whose own type is reflect.Value is a service like any other
	tyAny = reflect.TypeOf((*interface{})(nil)).Elem() // the empty interface: every registered type implements it
	tyT3  = reflect.TypeOf(cT3{})
	tyPT4 = reflect.TypeOf(&cT4{})
	tyS   = reflect.TypeOf(cS(""))
	tyN   = reflect.TypeOf(cN(0))
	tyCh  = reflect.TypeOf(make(chan int))
	tyRCh = reflect.TypeOf((<-chan int)(nil))
	tyI1  = reflect.TypeOf((*cI1)(nil)).Elem()
	tyI2  = reflect.TypeOf((*cI2)(nil)).Elem()
	tyI12 = reflect.TypeOf((*cI12)(nil)).Elem()
	tyI3  = reflect.TypeOf((*cI3)(nil)).Elem()
	// an unnamed struct type: it has no name, and it has methods (promoted from the pointer it embeds) - it implements
	// cI1, cI2 and cI12 like any named type would
	tyU = reflect.TypeOf(struct {
		*cT2
		Hits int
	}{})
	c04Tys = []reflect.Type{tyT1, tyPT1, tyPT2, tyT3, tyPT4, tyS, tyN, tyCh, tyRCh, tyI1, tyI2, tyI12, tyI3, tyT2, tySS, tyRV, tyAny, tyU}
)

func tyName(t reflect.Type) string { return t.String() }

func tyByName(s string) reflect.Type {
	for _, t := range c04Tys {
		if t.String() == s {
			return t
		}
	}
	panic("unknown type " + s)
}

// injCase: registrations over nested scopes and one invocation (C04, part A).
type injCase struct {
	Scopes   int      `json:"scopes"`                            // 1..3, scope 0 outermost, the last one is the nearest
	Link     string   `json:"scopes_linked,omitempty"`           // "" = every scope is given its parent as it is created, outermost first, before anything is registered | inside-out (the innermost link is made first, the outermost last) | after-registrations | relinked (every scope first gets a decoy parent that holds a value for every type and is then given its real parent). A scope resolves through the parents it has when it is asked
	Crowd    int      `json:"crowded_scope,omitempty"`           // >0: one scope (index Crowd-1) is filled up to 9-14 distinct types before the later re-registrations (which then re-register what the parameters ask for in that scope)
	Pad      int      `json:"empty_scopes_in_between,omitempty"` // this many empty injectors stand between each scope and its parent, and between the invoking injector and the nearest scope: an empty scope changes nothing, however many there are
	Regs     []injReg `json:"registrations"`
	Later    []injReg `json:"later_registrations,omitempty"`         // applied after the first invocation; then the handler is invoked again
	Params   []string `json:"params"`                                // parameter types of the handler
	Fast     string   `json:"fast,omitempty"`                        // name of a hand-written FastInvoker wrapper with exactly these parameters
	Apply    bool     `json:"apply,omitempty"`                       // Apply to a struct with tagged fields instead of Invoke
	PanicTA  bool     `json:"body_fails_a_type_assertion,omitempty"` // the function's body panics with a failed type assertion: it has run once and the panic is the caller's
	Variadic bool     `json:"variadic,omitempty"`                    // the function is variadic: its last parameter is ...cS, i.e. of type []cS, and is resolved like any other parameter
}

type injReg struct {
	Scope int    `json:"scope"`
	Key   string `json:"key"`  // type it is registered for
	Impl  string `json:"impl"` // concrete type of the value
	Via   string `json:"via"`  // Map | MapTo | Set
	Tag   string `json:"tag"`
	Nil   bool   `json:"typed_nil,omitempty"` // the registered value is a typed nil pointer (a legal registration; identity "nil:<type>")
}

func init() {
	register(&Check{ID: "C04", Run: runC04, Replay: func(w *core.W, kind string, raw json.RawMessage) {
		if kind == "flame-scopes" {
			var c flameInjCase
			if json.Unmarshal(raw, &c) == nil {
				w.Begin("flame-scopes", &c)
				judgeFlameInj(w, &c)
			}
			return
		}
		var c injCase
		if json.Unmarshal(raw, &c) == nil {
			w.Begin("inject", &c)
			judgeInj(w, &c)
		}
	}})
}

func mkValue(impl reflect.Type, tag string, chans map[string]string) reflect.Value {
	if strings.HasPrefix(tag, "nil:") {
		return reflect.Zero(impl)
	}
	switch impl {
	case tyT1:
		return reflect.ValueOf(cT1{tag})
	case tyPT1:
		return reflect.ValueOf(&cT1{tag})
	case tyPT2:
		return reflect.ValueOf(&cT2{tag})
	case tyT2:
		return reflect.ValueOf(cT2{tag})
	case tySS:
		return reflect.ValueOf([]cS{cS(tag), "second"})
	case tyRV:
		return reflect.ValueOf(reflect.ValueOf(cS(tag)))
	case tyU:
		return reflect.ValueOf(struct {
			*cT2
			Hits int
		}{&cT2{tag}, 1})
	case tyT3:
		return reflect.ValueOf(cT3{tag})
	case tyPT4:
		return reflect.ValueOf(&cT4{tag})
	case tyS:
		return reflect.ValueOf(cS(tag))
	case tyN:
		var n int
		fmt.Sscanf(tag, "v%d", &n)
		return reflect.ValueOf(cN(n))
	case tyCh:
		ch := make(chan int, 1)
		chans[fmt.Sprintf("%p", ch)] = tag
		return reflect.ValueOf(ch)
	case tyRCh:
		ch := make(chan int, 1)
		chans[fmt.Sprintf("%p", ch)] = tag
		return reflect.ValueOf((<-chan int)(ch))
	}
	panic("mkValue " + impl.String())
}

func tagOfValue(v reflect.Value, chans map[string]string) string {
	if !v.IsValid() {
		return "<invalid>"
	}
	if v.Kind() == reflect.Interface {
		if v.IsNil() {
			return "<nil>"
		}
		v = v.Elem()
	}
	if v.Kind() == reflect.Ptr && v.IsNil() {
		return "nil:" + v.Type().String()
	}
	switch x := v.Interface().(type) {
	case cT1:
		return x.Tag
	case *cT1:
		return x.Tag
	case *cT2:
		return x.Tag
	case cT2:
		return x.Tag
	case reflect.Value:
		if x.IsValid() && x.Type() == tyS {
			return string(x.Interface().(cS))
		}
		return "?reflect.Value"
	case []cS:
		if len(x) == 0 {
			return "?empty-slice"
		}
		return string(x[0])
	case cT3:
		return x.Tag
	case struct {
		*cT2
		Hits int
	}:
		return x.Tag
	case *cT4:
		return x.Tag
	case cS:
		return string(x)
	case cN:
		return fmt.Sprintf("v%d", int(x))
	case chan int:
		return chanTag(chans, fmt.Sprintf("%p", x))
	case <-chan int:
		return chanTag(chans, fmt.Sprintf("%p", x))
	}
	return fmt.Sprintf("?%T", v.Interface())
}

func chanTag(m map[string]string, p string) string {
	if t, ok := m[p]; ok {
		return t
	}
	return "?chan"
}

// implsFor lists concrete types assignable to key.
func implsFor(key reflect.Type) []reflect.Type {
	if key.Kind() != reflect.Interface {
		return []reflect.Type{key}
	}
	var out []reflect.Type
	for _, t := range c04Tys {
		if t.Kind() != reflect.Interface && t.Implements(key) {
			out = append(out, t)
		}
	}
	return out
}

func genInjCase(rng *rand.Rand) *injCase {
	c := &injCase{Scopes: 1 + rng.Intn(3), PanicTA: rng.Intn(15) == 0}
	if rng.Intn(30) == 0 {
		c.Pad = []int{1, 7, 15, 16, 31, 32, 33, 63, 64, 65, 127, 128, 129, 200, 255, 256, 257, 1000}[rng.Intn(18)]
	}
	n := 0
	nregs := rng.Intn(9)
	if rng.Intn(40) == 0 {
		nregs = 9 + rng.Intn(30) // enough registrations to grow the type map several times
	}
	for k := nregs; k > 0; k-- {
		key := c04Tys[rng.Intn(len(c04Tys))]
		impls := implsFor(key)
		impl := impls[rng.Intn(len(impls))]
		n++
		reg := injReg{Scope: rng.Intn(c.Scopes), Key: tyName(key), Impl: tyName(impl), Tag: fmt.Sprintf("v%d", n)}
		if impl.Kind() == reflect.Ptr && rng.Intn(8) == 0 {
			reg.Nil, reg.Tag = true, "nil:"+impl.String()
		}
		switch {
		case key.Kind() == reflect.Interface:
			reg.Via = []string{"MapTo", "Set"}[rng.Intn(2)]
		case key == tyRCh:
			reg.Via = "Set"
		default:
			reg.Via = []string{"Map", "Set"}[rng.Intn(2)]
		}
		c.Regs = append(c.Regs, reg)
	}
	switch rng.Intn(6) {
	case 0:
		names := make([]string, 0, len(fastWrappers))
		for k := range fastWrappers {
			names = append(names, k)
		}
		sortStrings(names)
		c.Fast = names[rng.Intn(len(names))]
		for _, t := range fastWrappers[c.Fast].in {
			c.Params = append(c.Params, tyName(t))
		}
	case 1:
		c.Apply = true
	default:
		np := rng.Intn(5)
		if rng.Intn(40) == 0 {
			np = 5 + rng.Intn(8)
		}
		for k := np; k > 0; k-- {
			c.Params = append(c.Params, tyName(pickParam(rng, c.Regs)))
		}
		if rng.Intn(8) == 0 {
			c.Variadic = true
			c.Params = append(c.Params, tyName(tySS))
		}
	}
	if len(c.Regs) > 0 && rng.Intn(2) == 0 {
		// a history: resolve once, register more (mostly re-registrations of what exists), resolve again
		for k := 1 + rng.Intn(3); k > 0; k-- {
			prev := c.Regs[rng.Intn(len(c.Regs))]
			key := tyByName(prev.Key)
			scope := prev.Scope
			if rng.Intn(4) == 0 {
				key = c04Tys[rng.Intn(len(c04Tys))]
				scope = rng.Intn(c.Scopes)
			}
			impls := implsFor(key)
			n++
			via := "Set"
			if key.Kind() == reflect.Interface && rng.Intn(2) == 0 {
				via = "MapTo"
			} else if key.Kind() != reflect.Interface && key != tyRCh && rng.Intn(2) == 0 {
				via = "Map"
			}
			c.Later = append(c.Later, injReg{Scope: scope, Key: tyName(key), Impl: tyName(impls[rng.Intn(len(impls))]), Via: via, Tag: fmt.Sprintf("v%d", n)})
		}
	}
	if c.Scopes > 1 && rng.Intn(4) == 0 {
		c.Link = []string{"inside-out", "after-registrations", "relinked"}[rng.Intn(3)]
	}
	if rng.Intn(12) == 0 {
		// a crowded scope: 9-14 distinct types in one scope, then what the parameters ask for is registered there again
		sc := rng.Intn(c.Scopes)
		c.Crowd = sc + 1
		have := map[string]bool{}
		for _, rg := range c.Regs {
			if rg.Scope == sc {
				have[rg.Key] = true
			}
		}
		want := 9 + rng.Intn(6)
		for _, k := range rng.Perm(len(c04Tys)) {
			key := c04Tys[k]
			if len(have) >= want {
				break
			}
			if have[tyName(key)] || key == tyRCh {
				continue
			}
			impls := implsFor(key)
			if len(impls) == 0 {
				continue
			}
			n++
			via := "Set"
			if key.Kind() == reflect.Interface && rng.Intn(2) == 0 {
				via = "MapTo"
			} else if key.Kind() != reflect.Interface && rng.Intn(2) == 0 {
				via = "Map"
			}
			c.Regs = append(c.Regs, injReg{Scope: sc, Key: tyName(key), Impl: tyName(impls[rng.Intn(len(impls))]), Via: via, Tag: fmt.Sprintf("v%d", n)})
			have[tyName(key)] = true
		}
		for _, pn := range c.Params {
			if !have[pn] {
				continue
			}
			key := tyByName(pn)
			if key == tyRCh {
				continue
			}
			impls := implsFor(key)
			if len(impls) == 0 {
				continue
			}
			n++
			via := "Set"
			if key.Kind() == reflect.Interface && rng.Intn(2) == 0 {
				via = "MapTo"
			} else if key.Kind() != reflect.Interface && rng.Intn(2) == 0 {
				via = "Map"
			}
			c.Later = append(c.Later, injReg{Scope: sc, Key: tyName(key), Impl: tyName(impls[rng.Intn(len(impls))]), Via: via, Tag: fmt.Sprintf("v%d", n)})
		}
	}
	if c.Apply {
		// make the struct's tagged field types resolvable most of the time
		for _, key := range []reflect.Type{tyT1, tyI1, tyI2, tyN} {
			if rng.Intn(10) < 8 {
				impls := implsFor(key)
				n++
				via := "Set"
				if key.Kind() == reflect.Interface {
					via = "MapTo"
				}
				c.Regs = append(c.Regs, injReg{Scope: rng.Intn(c.Scopes), Key: tyName(key), Impl: tyName(impls[rng.Intn(len(impls))]), Via: via, Tag: fmt.Sprintf("v%d", n)})
			}
		}
	}
	return c
}

// pickParam prefers types that some registration can satisfy (exactly or as an implementor).
func pickParam(rng *rand.Rand, regs []injReg) reflect.Type {
	if len(regs) == 0 || rng.Intn(4) == 0 {
		return c04Tys[rng.Intn(len(c04Tys))]
	}
	key := tyByName(regs[rng.Intn(len(regs))].Key)
	if rng.Intn(2) == 0 {
		var ifs []reflect.Type
		for _, it := range []reflect.Type{tyI1, tyI2, tyI12, tyI3} {
			if key.Implements(it) {
				ifs = append(ifs, it)
			}
		}
		if len(ifs) > 0 {
			return ifs[rng.Intn(len(ifs))]
		}
	}
	return key
}

func sortStrings(s []string) {
	for i := 1; i < len(s); i++ {
		for j := i; j > 0 && s[j] < s[j-1]; j-- {
			s[j], s[j-1] = s[j-1], s[j]
		}
	}
}

// ---- hand-written FastInvoker wrappers over the same universe ----------------------

type fastSpec struct {
	in   []reflect.Type
	wrap func(rec func(args ...interface{})) interface{}
}

type fiNone func() (int, string)

func (f fiNone) Invoke([]interface{}) ([]reflect.Value, error) {
	a, b := f()
	return []reflect.Value{reflect.ValueOf(a), reflect.ValueOf(b)}, nil
}

// fiRefuser: a fast invoker whose Invoke reports a failure of its own.
type fiRefuse struct{ mode int }
type fiRefuser func() fiRefuse

var errFiRefused = errors.New("refused by the wrapper")

func (r fiRefuse) Invoke([]interface{}) ([]reflect.Value, error) {
	switch r.mode {
	case 0:
		return nil, errFiRefused
	case 1:
		return []reflect.Value{reflect.ValueOf(403), reflect.ValueOf("partial")}, errFiRefused
	}
	return []reflect.Value{reflect.ValueOf(7)}, nil
}
func (f fiRefuser) Invoke(a []interface{}) ([]reflect.Value, error) { return f().Invoke(a) }

type fiT1 func(cT1) (int, string)

func (f fiT1) Invoke(a []interface{}) ([]reflect.Value, error) {
	x, y := f(a[0].(cT1))
	return []reflect.Value{reflect.ValueOf(x), reflect.ValueOf(y)}, nil
}

type fiI1 func(cI1) (int, string)

func (f fiI1) Invoke(a []interface{}) ([]reflect.Value, error) {
	x, y := f(a[0].(cI1))
	return []reflect.Value{reflect.ValueOf(x), reflect.ValueOf(y)}, nil
}

type fiI1I2 func(cI1, cI2) (int, string)

func (f fiI1I2) Invoke(a []interface{}) ([]reflect.Value, error) {
	x, y := f(a[0].(cI1), a[1].(cI2))
	return []reflect.Value{reflect.ValueOf(x), reflect.ValueOf(y)}, nil
}

type fiPT2S func(*cT2, cS) (int, string)

func (f fiPT2S) Invoke(a []interface{}) ([]reflect.Value, error) {
	x, y := f(a[0].(*cT2), a[1].(cS))
	return []reflect.Value{reflect.ValueOf(x), reflect.ValueOf(y)}, nil
}

type fiI12N func(cI12, cN) (int, string)

func (f fiI12N) Invoke(a []interface{}) ([]reflect.Value, error) {
	x, y := f(a[0].(cI12), a[1].(cN))
	return []reflect.Value{reflect.ValueOf(x), reflect.ValueOf(y)}, nil
}

type fiST3PT1 func(cS, cT3, *cT1) (int, string)

func (f fiST3PT1) Invoke(a []interface{}) ([]reflect.Value, error) {
	x, y := f(a[0].(cS), a[1].(cT3), a[2].(*cT1))
	return []reflect.Value{reflect.ValueOf(x), reflect.ValueOf(y)}, nil
}

type fiChI2 func(chan int, cI2) (int, string)

func (f fiChI2) Invoke(a []interface{}) ([]reflect.Value, error) {
	x, y := f(a[0].(chan int), a[1].(cI2))
	return []reflect.Value{reflect.ValueOf(x), reflect.ValueOf(y)}, nil
}

type fiSS func(cS, cS) (int, string)

func (f fiSS) Invoke(a []interface{}) ([]reflect.Value, error) {
	x, y := f(a[0].(cS), a[1].(cS))
	return []reflect.Value{reflect.ValueOf(x), reflect.ValueOf(y)}, nil
}

type fiI2I1 func(cI2, cI1) (int, string)

func (f fiI2I1) Invoke(a []interface{}) ([]reflect.Value, error) {
	x, y := f(a[0].(cI2), a[1].(cI1))
	return []reflect.Value{reflect.ValueOf(x), reflect.ValueOf(y)}, nil
}

var fastWrappers = map[string]fastSpec{
	"fiNone": {nil, func(rec func(...interface{})) interface{} {
		return fiNone(func() (int, string) { rec(); return 42, "res" })
	}},
	"fiT1": {[]reflect.Type{tyT1}, func(rec func(...interface{})) interface{} {
		return fiT1(func(a cT1) (int, string) { rec(a); return 42, "res" })
	}},
	"fiI1": {[]reflect.Type{tyI1}, func(rec func(...interface{})) interface{} {
		return fiI1(func(a cI1) (int, string) { rec(a); return 42, "res" })
	}},
	"fiI1I2": {[]reflect.Type{tyI1, tyI2}, func(rec func(...interface{})) interface{} {
		return fiI1I2(func(a cI1, b cI2) (int, string) { rec(a, b); return 42, "res" })
	}},
	"fiPT2S": {[]reflect.Type{tyPT2, tyS}, func(rec func(...interface{})) interface{} {
		return fiPT2S(func(a *cT2, b cS) (int, string) { rec(a, b); return 42, "res" })
	}},
	"fiI12N": {[]reflect.Type{tyI12, tyN}, func(rec func(...interface{})) interface{} {
		return fiI12N(func(a cI12, b cN) (int, string) { rec(a, b); return 42, "res" })
	}},
	"fiST3PT1": {[]reflect.Type{tyS, tyT3, tyPT1}, func(rec func(...interface{})) interface{} {
		return fiST3PT1(func(a cS, b cT3, c *cT1) (int, string) { rec(a, b, c); return 42, "res" })
	}},
	"fiChI2": {[]reflect.Type{tyCh, tyI2}, func(rec func(...interface{})) interface{} {
		return fiChI2(func(a chan int, b cI2) (int, string) { rec(a, b); return 42, "res" })
	}},
	"fiSS": {[]reflect.Type{tyS, tyS}, func(rec func(...interface{})) interface{} {
		return fiSS(func(a cS, b cS) (int, string) { rec(a, b); return 42, "res" })
	}},
	"fiI2I1": {[]reflect.Type{tyI2, tyI1}, func(rec func(...interface{})) interface{} {
		return fiI2I1(func(a cI2, b cI1) (int, string) { rec(a, b); return 42, "res" })
	}},
}

// ---- oracle: nearest scope first; exact, then implementors of the same scope, then outwards

type scopeTable []map[reflect.Type]string // per scope: key type -> tag of the latest registration

func resolve(tbl scopeTable, t reflect.Type) (acceptable []string, multiScope, exactAndImpl bool) {
	cands := 0
	for si := len(tbl) - 1; si >= 0; si-- {
		var here []string
		if tag, ok := tbl[si][t]; ok {
			here = []string{tag}
			if t.Kind() == reflect.Interface {
				for k := range tbl[si] {
					if k != t && k.Implements(t) {
						exactAndImpl = true
					}
				}
			}
		} else if t.Kind() == reflect.Interface {
			for k, tag := range tbl[si] {
				if k.Implements(t) {
					here = append(here, tag)
				}
			}
		}
		if len(here) > 0 {
			cands++
			if acceptable == nil {
				acceptable = here
			}
		}
	}
	return acceptable, cands >= 2, exactAndImpl
}

type injObs struct {
	err    error
	pan    interface{}
	ran    int
	tags   []string
	ret    []reflect.Value
	fields map[string]string // Apply: field -> tag
}

// injVerdict judges an invocation against the acceptable-value sets.
func injVerdict(params []reflect.Type, accept [][]string, o injObs) string {
	if o.pan != nil {
		return fmt.Sprintf("panic: %v", o.pan)
	}
	for i, a := range accept {
		if a == nil {
			if o.err == nil {
				return fmt.Sprintf("parameter %d (%v) cannot be resolved, yet no error was reported", i, params[i])
			}
			if o.ran != 0 {
				return fmt.Sprintf("parameter %d (%v) cannot be resolved, yet the handler body ran", i, params[i])
			}
			if !strings.Contains(o.err.Error(), params[i].String()) {
				return fmt.Sprintf("error %q does not name the missing type %v", o.err, params[i])
			}
			return ""
		}
	}
	if o.err != nil {
		return fmt.Sprintf("every parameter is resolvable, yet the invocation reported %v", o.err)
	}
	if o.ran != 1 {
		return fmt.Sprintf("the handler body ran %d times", o.ran)
	}
	if len(o.tags) != len(accept) {
		return fmt.Sprintf("handler received %d arguments, expected %d", len(o.tags), len(accept))
	}
	for i, g := range o.tags {
		ok := false
		for _, a := range accept[i] {
			if a == g {
				ok = true
			}
		}
		if !ok {
			return fmt.Sprintf("parameter %d (%v) received value %q; acceptable by nearest-scope resolution: %v", i, params[i], g, accept[i])
		}
	}
	if len(o.ret) != 2 || !o.ret[0].IsValid() || o.ret[0].Kind() != reflect.Int || o.ret[0].Int() != 42 || o.ret[1].String() != "res" {
		return fmt.Sprintf("results did not come back unchanged: %v", o.ret)
	}
	return ""
}

// c04Base, c04Opt: embedded into the struct given to Apply, untagged. Their fields belong to them, carry no tag and are
// promoted; Apply has no business with them - nor with the nil pointer one of them is embedded through.
type c04Base struct {
	Tenant cS
	Serial cN
}
type c04Opt struct{ Note cT1 }

type applyTarget struct {
	c04Base
	*c04Opt
	A cT1  `inject:""`
	B cI1  `inject:"x"`
	C cS   // untagged: must stay untouched
	d *cT2 `inject:""` // unexported: cannot be set, must be skipped
	E cI2  `inject:""`
	F cN   `inject:""`
	G cT3  // untagged struct-typed field: must stay untouched as well
	H cI1  // untagged interface-typed field
	I cN   `inject:"-"` // whatever the tag's value is, the field is tagged
	J cT1  `json:"j" inject:"-,"`
	K cT3  `noinject:""`                                 // other packages' tag keys, however they are spelled, do not tag for injection
	L cS   `reinject:"x" json:"inject" doc:"see inject"` //
	M cN   `Inject:""`
}

// padScopes puts n empty injectors under parent and returns the innermost.
func padScopes(parent inject.Injector, n int) inject.Injector {
	for ; n > 0; n-- {
		e := inject.New()
		e.SetParent(parent)
		parent = e
	}
	return parent
}

func buildScopes(c *injCase, chans map[string]string) ([]inject.Injector, scopeTable) {
	scopes := make([]inject.Injector, c.Scopes)
	tbl := make(scopeTable, c.Scopes)
	type linkStep struct{ child, parent inject.Injector }
	var links []linkStep
	for i := range scopes {
		scopes[i] = inject.New()
		tbl[i] = map[reflect.Type]string{}
		if i > 0 {
			if c.Link == "" {
				scopes[i].SetParent(padScopes(scopes[i-1], c.Pad))
				continue
			}
			parent := scopes[i-1]
			for n := c.Pad; n > 0; n-- {
				e := inject.New()
				links = append(links, linkStep{e, parent})
				parent = e
			}
			links = append(links, linkStep{scopes[i], parent})
		}
	}
	doLinks := func() {
		switch c.Link {
		case "inside-out":
			for k := len(links) - 1; k >= 0; k-- {
				links[k].child.SetParent(links[k].parent)
			}
		case "relinked":
			decoy := inject.New()
			for _, t := range c04Tys {
				if impls := implsFor(t); len(impls) > 0 && t != tyRCh {
					decoy.Set(t, mkValue(impls[0], "decoy-parent", chans))
				}
			}
			for _, l := range links {
				l.child.SetParent(decoy)
			}
			for _, l := range links {
				l.child.SetParent(l.parent)
			}
		default:
			for _, l := range links {
				l.child.SetParent(l.parent)
			}
		}
	}
	if c.Link != "after-registrations" {
		doLinks()
	}
	defer func() {
		if c.Link == "after-registrations" {
			doLinks()
		}
	}()
	for _, rg := range c.Regs {
		key, impl := tyByName(rg.Key), tyByName(rg.Impl)
		v := mkValue(impl, rg.Tag, chans)
		switch rg.Via {
		case "Map":
			scopes[rg.Scope].Map(v.Interface())
		case "MapTo":
			switch key {
			case tyI1:
				scopes[rg.Scope].MapTo(v.Interface(), (*cI1)(nil))
			case tyI2:
				scopes[rg.Scope].MapTo(v.Interface(), (*cI2)(nil))
			case tyI3:
				scopes[rg.Scope].MapTo(v.Interface(), (*cI3)(nil))
			case tyAny:
				scopes[rg.Scope].MapTo(v.Interface(), (*interface{})(nil))
			default:
				scopes[rg.Scope].MapTo(v.Interface(), (*cI12)(nil))
			}
		default:
			scopes[rg.Scope].Set(key, v)
		}
		tbl[rg.Scope][key] = rg.Tag
	}
	return scopes, tbl
}

func judgeInj(w *core.W, c *injCase) {
	w.Eval()
	chans := map[string]string{}
	scopes, tbl := buildScopes(c, chans)
	nearest := scopes[len(scopes)-1]
	if c.Pad > 0 {
		nearest = padScopes(nearest, c.Pad) // later registrations still go to the real scopes
		w.Count("deep-scope-chains")
	}
	for _, rg := range c.Regs {
		if rg.Nil {
			w.Count("typed-nil-registered")
		}
	}

	if c.Apply {
		var tgt applyTarget
		tgt.C = "untouched"
		tgt.c04Base = c04Base{Tenant: "acme", Serial: 7}
		tgt.L = "untouched-L"
		if len(c.Regs)%2 == 1 {
			// a struct pre-filled by its constructor: tagged fields are injected all the same
			tgt.A, tgt.F = cT1{"prefilled"}, cN(-1)
			tgt.B = cT1{"prefilled"}
		}
		applyOnce := func(label string) bool {
			var err error
			var pan interface{}
			func() {
				defer func() { pan = recover() }()
				if len(c.Regs)%4 == 1 {
					pt := &tgt
					err = nearest.Apply(&pt) // a pointer to a pointer to the struct: every level is dereferenced
				} else {
					err = nearest.Apply(&tgt)
				}
			}()
			fields := []struct {
				name string
				t    reflect.Type
				v    reflect.Value
			}{{"A", tyT1, reflect.ValueOf(tgt.A)}, {"B", tyI1, reflect.ValueOf(&tgt.B).Elem()}, {"E", tyI2, reflect.ValueOf(&tgt.E).Elem()}, {"F", tyN, reflect.ValueOf(tgt.F)}, {"I", tyN, reflect.ValueOf(tgt.I)}, {"J", tyT1, reflect.ValueOf(tgt.J)}}
			if pan != nil {
				w.Violate("apply", c, fmt.Sprintf("%s: Apply panicked: %v", label, pan))
				return false
			}
			w.Count("apply")
			for _, fd := range fields {
				acc, _, _ := resolve(tbl, fd.t)
				if acc == nil {
					if err == nil || !strings.Contains(err.Error(), fd.t.String()) {
						w.Violate("apply", c, fmt.Sprintf("%s: field %s (%v) cannot be resolved; Apply returned %v", label, fd.name, fd.t, err))
					} else {
						w.Count("apply-unresolved")
					}
					return false // Apply stops at the first unresolved field
				}
				got := tagOfValue(fd.v, chans)
				ok := false
				for _, a := range acc {
					if a == got {
						ok = true
					}
				}
				if !ok {
					w.Violate("apply", c, fmt.Sprintf("%s: field %s (%v) = %q; acceptable: %v", label, fd.name, fd.t, got, acc))
					return false
				}
			}
			if err != nil {
				w.Violate("apply", c, fmt.Sprintf("%s: all tagged fields are resolvable, Apply returned %v", label, err))
				return false
			}
			if tgt.C != "untouched" || tgt.d != nil || tgt.G != (cT3{}) || tgt.H != nil || tgt.c04Base != (c04Base{Tenant: "acme", Serial: 7}) || tgt.c04Opt != nil || tgt.K != (cT3{}) || tgt.L != "untouched-L" || tgt.M != 0 {
				w.Violate("apply", c, label+": an untagged or unexported field was modified")
				return false
			}
			return true
		}
		// Apply on a struct passed by value is a legal no-op (nothing is settable); it must not influence later calls
		if len(c.Regs)%3 == 0 {
			var byVal error
			var bp interface{}
			func() {
				defer func() { bp = recover() }()
				byVal = nearest.Apply(applyTarget{})
			}()
			w.Count("apply-by-value-first")
			if bp != nil || byVal != nil {
				w.Violate("apply", c, fmt.Sprintf("Apply on a struct passed by value: panic=%v err=%v (nothing is settable, so nothing can fail)", bp, byVal))
				return
			}
		}
		if !applyOnce("first Apply") {
			return
		}
		if len(c.Later) > 0 {
			for _, rg := range c.Later {
				applyReg(scopes[rg.Scope], rg, chans)
				tbl[rg.Scope][tyByName(rg.Key)] = rg.Tag
			}
			w.Count("apply-again-after-more-registrations")
			if !applyOnce("second Apply on the same struct, after the later registrations") {
				return
			}
		}
		w.NonTrivial(core.Hash64("apply", fmt.Sprint(c.Regs, c.Later)), nil)
		return
	}

	params := make([]reflect.Type, len(c.Params))
	accept := make([][]string, len(c.Params))
	nt := false
	for i, p := range c.Params {
		params[i] = tyByName(p)
		var multi, both bool
		accept[i], multi, both = resolve(tbl, params[i])
		if multi {
			w.Count("nt:candidates-in>=2-scopes")
			nt = true
		}
		if both {
			w.Count("nt:exact-and-implementor")
			nt = true
		}
		if accept[i] == nil {
			w.Count("nt:unresolvable")
			nt = true
		}
		if len(accept[i]) > 1 {
			w.Count("several-implementors-in-scope(any accepted)")
		}
	}
	for _, rg := range c.Regs {
		for _, r2 := range c.Regs {
			if rg.Scope == r2.Scope && rg.Key == r2.Key && rg.Tag != r2.Tag {
				for _, p := range c.Params {
					if p == rg.Key {
						nt = true
						w.Count("nt:re-registered")
					}
				}
			}
		}
	}

	// reflective
	var o injObs
	resolvable := true
	for _, a := range accept {
		resolvable = resolvable && a != nil
	}
	failAssertion := func() {
		if c.PanicTA {
			var i interface{} = 1
			_ = i.(string)
		}
	}
	// taVerdict: a body that fails a type assertion has run exactly once and its panic reaches the caller
	taVerdict := func(o injObs) string {
		if !c.PanicTA || !resolvable {
			return ""
		}
		if _, ok := o.pan.(*runtime.TypeAssertionError); !ok {
			return fmt.Sprintf("the body failed a type assertion, the caller saw %v", o.pan)
		}
		if o.ran != 1 {
			return fmt.Sprintf("the body failed a type assertion and ran %d times", o.ran)
		}
		return ""
	}
	fn := reflect.MakeFunc(reflect.FuncOf(params, []reflect.Type{tInt, tString}, c.Variadic), func(args []reflect.Value) []reflect.Value {
		o.ran++
		for _, a := range args {
			o.tags = append(o.tags, tagOfValue(a, chans))
		}
		failAssertion()
		return []reflect.Value{reflect.ValueOf(42), reflect.ValueOf("res")}
	})
	func() {
		defer func() { o.pan = recover() }()
		o.ret, o.err = nearest.Invoke(fn.Interface())
	}()
	w.Count("invocations:reflective")
	if c.PanicTA && resolvable {
		w.Count("body-failed-a-type-assertion")
		if msg := taVerdict(o); msg != "" {
			w.Violate("inject", c, "[reflective] "+msg)
			return
		}
	} else if msg := injVerdict(params, accept, o); msg != "" {
		w.Violate("inject", c, "[reflective] "+msg)
		return
	}
	if c.Fast != "" {
		var fo injObs
		h := fastWrappers[c.Fast].wrap(func(args ...interface{}) {
			fo.ran++
			for _, a := range args {
				fo.tags = append(fo.tags, tagOfValue(reflect.ValueOf(a), chans))
			}
			failAssertion()
		})
		if !inject.IsFastInvoker(h) {
			panic("harness: wrapper is not a FastInvoker")
		}
		func() {
			defer func() { fo.pan = recover() }()
			fo.ret, fo.err = nearest.Invoke(h)
		}()
		w.Count("invocations:fast")
		if c.PanicTA && resolvable {
			if msg := taVerdict(fo); msg != "" {
				w.Violate("inject", c, "[fast invoker "+c.Fast+"] "+msg)
			}
			return
		}
		if msg := injVerdict(params, accept, fo); msg != "" {
			w.Violate("inject", c, "[fast invoker "+c.Fast+"] "+msg)
			return
		}
		// identical arguments on both paths when the resolution is unambiguous
		amb := false
		for _, a := range accept {
			if len(a) > 1 {
				amb = true
			}
		}
		if !amb && fmt.Sprint(fo.tags) != fmt.Sprint(o.tags) {
			w.Violate("inject", c, fmt.Sprintf("fast invoker received %v, plain function received %v", fo.tags, o.tags))
			return
		}
	}
	{
		// the injector's own interfaces are types like any other: nobody registered a value for them, so a parameter of
		// such a type is unresolvable (the injector does not offer itself)
		ran := false
		var err error
		var pan interface{}
		func() {
			defer func() { pan = recover() }()
			switch len(c.Regs) % 4 {
			case 0:
				_, err = nearest.Invoke(func(inject.TypeMapper) { ran = true })
			case 1:
				_, err = nearest.Invoke(func(inject.Invoker) { ran = true })
			case 2:
				_, err = nearest.Invoke(func(interface{ Apply(interface{}) error }) { ran = true })
			default:
				_, err = nearest.Invoke(func(inject.Injector) { ran = true })
			}
		}()
		w.Count("parameters-of-the-injector's-own-interface-types")
		if ran || err == nil || pan != nil {
			w.Violate("inject", c, fmt.Sprintf("a parameter of one of the injector's own interface types (no value registered for it): body ran=%v, error=%v, panic=%v - want an error naming the type, body not run", ran, err, pan))
			return
		}
	}
	if c.Fast != "" {
		// a user-written fast invoker that refuses (an error, with or without values next to it): what it returns is
		// what Invoke returns
		want := fiRefuse{mode: len(c.Regs) % 3}
		wv, we := want.Invoke(nil)
		var gv []reflect.Value
		var ge error
		var gp interface{}
		func() {
			defer func() { gp = recover() }()
			gv, ge = nearest.Invoke(fiRefuser(func() fiRefuse { return want }))
		}()
		w.Count("invocations:fast-invoker-that-reports-an-error")
		same := gp == nil && ge == we && len(gv) == len(wv)
		for i := 0; same && i < len(wv); i++ {
			same = gv[i].Interface() == wv[i].Interface()
		}
		if !same {
			w.Violate("inject", c, fmt.Sprintf("a user-written fast invoker returned (%d values, error %v); Invoke handed back (%d values, error %v, panic %v)", len(wv), we, len(gv), ge, gp))
			return
		}
	}
	if len(c.Later) > 0 {
		for _, rg := range c.Later {
			applyReg(scopes[rg.Scope], rg, chans)
			tbl[rg.Scope][tyByName(rg.Key)] = rg.Tag
		}
		accept2 := make([][]string, len(params))
		for i := range params {
			accept2[i], _, _ = resolve(tbl, params[i])
		}
		var o2 injObs
		fn2 := reflect.MakeFunc(reflect.FuncOf(params, []reflect.Type{tInt, tString}, c.Variadic), func(args []reflect.Value) []reflect.Value {
			o2.ran++
			for _, a := range args {
				o2.tags = append(o2.tags, tagOfValue(a, chans))
			}
			return []reflect.Value{reflect.ValueOf(42), reflect.ValueOf("res")}
		})
		func() {
			defer func() { o2.pan = recover() }()
			o2.ret, o2.err = nearest.Invoke(fn2.Interface())
		}()
		w.Count("second-invocation-after-more-registrations")
		if fmt.Sprint(accept2) != fmt.Sprint(accept) {
			w.Count("nt:later-registration-changes-the-resolution")
			nt = true
		}
		if msg := injVerdict(params, accept2, o2); msg != "" {
			w.Violate("inject", c, "[second invocation, after the later registrations] "+msg)
			return
		}
	}
	if nt {
		b, _ := json.Marshal(c)
		w.NonTrivial(core.Hash64(string(b)), func() interface{} { return map[string]interface{}{"case": c, "acceptable": accept, "received": o.tags} })
	}
	w.Sample(func() interface{} { return map[string]interface{}{"case": c, "acceptable": accept, "received": o.tags} })
}

// ---- part B: the real scopes (Flame = application, Context = request) ----------------

// Two interfaces, each satisfied by exactly one of the two logger types every Flame instance maps at application
// scope. Both types are spelled "*log.Logger" (different packages of the same name): type identity, not spelling.
type c04Flagger interface{ Flags() int }
type c04Leveler interface{ GetLevel() log.Level }

// c04Late is a user-defined FastInvoker that lets the rest of the chain run before it looks at its
// arguments again: they are its own.
type c04Late func(flamego.Context, *http.Request, *string)

func (f c04Late) Invoke(a []interface{}) ([]reflect.Value, error) {
	ctx, req := a[0].(flamego.Context), a[1].(*http.Request)
	ctx.Next()
	msg := a[2].(*string)
	if c2, ok := a[0].(flamego.Context); !ok || c2 != ctx {
		*msg = "argument 0 handed to a user-defined FastInvoker changed while the rest of the chain ran"
	}
	if r2, ok := a[1].(*http.Request); !ok || r2 != req {
		*msg = "argument 1 handed to a user-defined FastInvoker changed while the rest of the chain ran"
	}
	f(ctx, req, msg)
	return nil, nil
}

type flameInjCase struct {
	App      []injReg `json:"app"`                                         // Flame.Map*/Set
	Req      []injReg `json:"request"`                                     // Context.Map*/Set in the first handler of request 1
	Params   []string `json:"params"`                                      // parameters of the later handler
	Wrapping string   `json:"wrapping"`                                    // plain | context | http | handlerfunc | teapot | logger
	Logger   bool     `json:"logger_re_registered,omitempty"`              // the application re-registers *log.Logger (a type the framework maps itself): handlers must receive the later registration
	Late     bool     `json:"late_reading_fast_invoker,omitempty"`         // a user-defined FastInvoker early in the chain calls Next() and reads its arguments afterwards
	ReqLog   bool     `json:"request_scoped_logger_mapped_late,omitempty"` // the built-in request logger (a LoggerInvoker) runs first; at the end of the chain a handler maps a request-scoped *log.Logger (the request-id pattern) and the handlers after it - a LoggerInvoker and a plain function - must receive that one
	Remap    bool     `json:"context_remapped,omitempty"`                  // an earlier handler re-registers the Context type in the request scope (a decorating wrapper); later handlers must receive the wrapper
}

// c04CtxWrap decorates the request's Context.
type c04CtxWrap struct{ flamego.Context }

func genFlameInjCase(rng *rand.Rand) *flameInjCase {
	c := &flameInjCase{Wrapping: []string{"plain", "plain", "plain", "context", "http", "handlerfunc", "teapot", "logger"}[rng.Intn(8)], Remap: rng.Intn(3) == 0, Logger: rng.Intn(4) == 0, Late: rng.Intn(3) == 0}
	c.ReqLog = rng.Intn(3) == 0
	n := 0
	gen := func() injReg {
		key := c04Tys[rng.Intn(len(c04Tys))]
		impls := implsFor(key)
		n++
		rg := injReg{Key: tyName(key), Impl: tyName(impls[rng.Intn(len(impls))]), Tag: fmt.Sprintf("v%d", n), Via: "Set"}
		if key.Kind() == reflect.Interface && rng.Intn(2) == 0 {
			rg.Via = "MapTo"
		} else if key.Kind() != reflect.Interface && key != tyRCh && rng.Intn(2) == 0 {
			rg.Via = "Map"
		}
		return rg
	}
	for k := rng.Intn(5); k > 0; k-- {
		c.App = append(c.App, gen())
	}
	for k := rng.Intn(5); k > 0; k-- {
		c.Req = append(c.Req, gen())
	}
	for k := rng.Intn(4); k > 0; k-- {
		pt := pickParam(rng, append(append([]injReg{}, c.App...), c.Req...))
		if pt == tyAny {
			pt = tyS // the request scope also holds what the framework maps itself: any of that satisfies interface{}
		}
		c.Params = append(c.Params, tyName(pt))
	}
	return c
}

func applyReg(m inject.TypeMapper, rg injReg, chans map[string]string) {
	key, impl := tyByName(rg.Key), tyByName(rg.Impl)
	v := mkValue(impl, rg.Tag, chans)
	switch rg.Via {
	case "Map":
		m.Map(v.Interface())
	case "MapTo":
		switch key {
		case tyI1:
			m.MapTo(v.Interface(), (*cI1)(nil))
		case tyI2:
			m.MapTo(v.Interface(), (*cI2)(nil))
		case tyI3:
			m.MapTo(v.Interface(), (*cI3)(nil))
		case tyAny:
			m.MapTo(v.Interface(), (*interface{})(nil))
		default:
			m.MapTo(v.Interface(), (*cI12)(nil))
		}
	default:
		m.Set(key, v)
	}
}

func judgeFlameInj(w *core.W, c *flameInjCase) {
	w.Eval()
	chans := map[string]string{}
	f := flamego.NewWithLogger(io.Discard)
	appTbl := map[reflect.Type]string{}
	for _, rg := range c.App {
		applyReg(f, rg, chans)
		appTbl[tyByName(rg.Key)] = rg.Tag
	}
	var myLogger *log.Logger
	if c.Logger {
		myLogger = log.New(io.Discard)
		f.Map(myLogger)
	}
	reqTbl := map[reflect.Type]string{}
	for _, rg := range c.Req {
		reqTbl[tyByName(rg.Key)] = rg.Tag
	}
	params := make([]reflect.Type, len(c.Params))
	for i, p := range c.Params {
		params[i] = tyByName(p)
	}
	var wrapCtx flamego.Context
	mapper := func(ctx flamego.Context) {
		if c.Remap {
			wrapCtx = &c04CtxWrap{Context: ctx}
			ctx.MapTo(wrapCtx, (*flamego.Context)(nil))
		}
		if ctx.Request().Header.Get("X-Map") == "yes" {
			for _, rg := range c.Req {
				applyReg(ctx, rg, chans)
			}
		}
	}
	var o injObs
	var curReq *http.Request
	var curCtx flamego.Context
	svcOK := ""
	later := reflect.MakeFunc(reflect.FuncOf(params, []reflect.Type{tInt, tString}, false), func(args []reflect.Value) []reflect.Value {
		o.ran++
		for _, a := range args {
			o.tags = append(o.tags, tagOfValue(a, chans))
		}
		return []reflect.Value{reflect.ValueOf(0), reflect.ValueOf("")}
	}).Interface()
	// the built-in automatic wrappings receive the request's own services
	var wrapped flamego.Handler
	wran := 0
	switch c.Wrapping {
	case "context":
		wrapped = func(ctx flamego.Context) {
			wran++
			if c.Remap && ctx != wrapCtx {
				svcOK = "func(Context) did not receive the Context that an earlier handler re-registered for this request (a later registration replaces the earlier)"
			} else if !c.Remap && ctx != curCtx {
				svcOK = "func(Context) received a Context that is not the request's own"
			}
		}
	case "http":
		wrapped = func(rw http.ResponseWriter, rq *http.Request) {
			wran++
			if rq != curReq {
				svcOK = "func(http.ResponseWriter,*http.Request) received another request"
			}
			if rw != http.ResponseWriter(curCtx.ResponseWriter()) {
				svcOK = "func(http.ResponseWriter,*http.Request) received a writer that is not the request's own"
			}
		}
	case "handlerfunc":
		wrapped = http.HandlerFunc(func(rw http.ResponseWriter, rq *http.Request) {
			wran++
			if rq != curReq || rw != http.ResponseWriter(curCtx.ResponseWriter()) {
				svcOK = "http.HandlerFunc received services that are not the request's own"
			}
		})
	case "teapot":
		wrapped = func() (int, string) { wran++; return 0, "" }
	case "logger":
		wrapped = flamego.LoggerInvoker(func(ctx flamego.Context, l *log.Logger) {
			wran++
			if (c.Remap && ctx != wrapCtx) || (!c.Remap && ctx != curCtx) || l == nil {
				svcOK = "LoggerInvoker received services that are not the request's own (or not the re-registered Context)"
			}
			if c.Logger && l != myLogger {
				svcOK = "LoggerInvoker did not receive the *log.Logger the application registered last"
			}
		})
	default:
		wrapped = func() { wran++ }
	}
	loggerSeen := func(l *log.Logger) {
		if c.Logger && l != myLogger {
			svcOK = "a handler asking for *log.Logger did not receive the one the application registered last (a later registration replaces the earlier)"
		}
	}
	twoLoggers := func(fl c04Flagger, lv c04Leveler) {
		if _, ok := fl.(*stdlog.Logger); !ok {
			svcOK = fmt.Sprintf("interface{ Flags() int } was resolved to a %T, which is not the registered implementor (*log.Logger of the standard library)", fl)
		}
		if _, ok := lv.(*log.Logger); !ok {
			svcOK = fmt.Sprintf("interface{ GetLevel() log.Level } was resolved to a %T, which is not the registered implementor", lv)
		}
	}
	hs := []flamego.Handler{func(ctx flamego.Context) { curCtx = ctx }, mapper}
	lateMsg := ""
	if c.Late {
		f.Map(&lateMsg)
		hs = append(hs, c04Late(func(flamego.Context, *http.Request, *string) {}))
		w.Count("late-reading-fast-invoker")
	}
	hs = append(hs, twoLoggers, wrapped, loggerSeen, later)
	if c.ReqLog {
		f.Use(flamego.Logger())
		var reqL *log.Logger
		hs = append(hs,
			func(ctx flamego.Context, l *log.Logger) { reqL = l.With("rid", "r-1"); ctx.Map(reqL) },
			flamego.LoggerInvoker(func(_ flamego.Context, l *log.Logger) {
				if l != reqL {
					svcOK = "a LoggerInvoker that runs after a request-scoped *log.Logger was mapped did not receive it (the request scope is nearer than the application's)"
				}
			}),
			func(l *log.Logger) {
				if l != reqL {
					svcOK = "a handler that runs after a request-scoped *log.Logger was mapped did not receive it"
				}
			})
		w.Count("request-scoped-logger-mapped-late")
	}
	f.Get("/i", hs...)

	serve := func(withMap bool) (pan interface{}) {
		o = injObs{}
		wran = 0
		curReq = &http.Request{Method: "GET", URL: &url.URL{Path: "/i"}, Header: http.Header{}}
		if withMap {
			curReq.Header.Set("X-Map", "yes")
		}
		defer func() { pan = recover() }()
		f.ServeHTTP(&retSpy{h: http.Header{}}, curReq)
		return nil
	}
	judge := func(label string, tbl scopeTable, pan interface{}) bool {
		accept := make([][]string, len(params))
		for i := range params {
			accept[i], _, _ = resolve(tbl, params[i])
		}
		if svcOK == "" && lateMsg != "" {
			svcOK = lateMsg
		}
		if svcOK != "" {
			w.Violate("services", c, label+": "+svcOK)
			return false
		}
		if wran != 1 {
			w.Violate("services", c, fmt.Sprintf("%s: the automatically wrapped handler (%s) ran %d times", label, c.Wrapping, wran))
			return false
		}
		if pan != nil {
			// a failed resolution surfaces as a panic inside the chain
			o.err = fmt.Errorf("%v", pan)
			if _, isStr := pan.(string); !isStr {
				w.Violate("inject", c, fmt.Sprintf("%s: unexpected panic %v", label, pan))
				return false
			}
		}
		if msg := injVerdict(params, accept, injObs{err: o.err, ran: o.ran, tags: o.tags, ret: []reflect.Value{reflect.ValueOf(42), reflect.ValueOf("res")}}); msg != "" {
			w.Violate("inject", c, label+": "+msg)
			return false
		}
		return true
	}
	// request 1 maps request-scoped values; request 2 must not see them
	pan := serve(true)
	w.Count("flame-requests")
	if !judge("request with request-scoped registrations", scopeTable{appTbl, reqTbl}, pan) {
		return
	}
	pan = serve(false)
	w.Count("flame-requests")
	if !judge("following request (request-scoped values of the previous one must be gone)", scopeTable{appTbl, map[reflect.Type]string{}}, pan) {
		return
	}
	w.Count("wrapping:" + c.Wrapping)
	if c.Logger {
		w.Count("framework-type-re-registered")
	}
	if c.Remap && (c.Wrapping == "context" || c.Wrapping == "logger") {
		w.Count("context-remapped-before-context-handler")
	}
	shadow := false
	for k := range reqTbl {
		if _, ok := appTbl[k]; ok {
			shadow = true
		}
	}
	if shadow {
		w.Count("nt:request-shadows-application")
	}
	b, _ := json.Marshal(c)
	if shadow || len(c.Req) > 0 {
		w.NonTrivial(core.Hash64("flame", string(b)), func() interface{} { return c })
	}
}

func runC04(r *core.Run) {
	r.Rule("(A) 1-3 nested injectors, random registration histories (Map / MapTo / Set, re-registrations) over 13 types (structs, pointers, named string/int, chan int, <-chan int via Set, four interfaces with overlapping implementor sets incl. an embedding one and a sealed one with an unexported method), handlers with 0-4 parameters built with reflect.MakeFunc, ten hand-written FastInvoker wrappers over the same universe (compared with the plain function), Apply on a struct with tagged / untagged / unexported-tagged fields. (B) the real scopes: Flame.Map* (application) and Context.Map* in an earlier handler (request), a following request that must not see request-scoped values, and the built-in automatic wrappings receiving the request's own Context / ResponseWriter / *http.Request / logger. Oracle: resolution over the harness's own registration table - nearest scope first; exact type, else any implementor registered in that scope (any member acceptable: the implementation iterates a map), else outwards; unresolved => error naming the type and body not run. non-trivial = distinct cases with candidates in >=2 scopes, exact and implementor candidates, re-registration or an unresolvable parameter")
	r.Assume("only well-typed registrations; no variadic handlers; Map(nil) excluded")
	c04Canaries(r)
	r.Parallel("inj", r.N(100000, 8000000), func(w *core.W, rng *rand.Rand, i int) {
		c := genInjCase(rng)
		w.Begin("inject", c)
		judgeInj(w, c)
	})
	r.Parallel("flame", r.N(15000, 1000000), func(w *core.W, rng *rand.Rand, i int) {
		c := genFlameInjCase(rng)
		w.Begin("flame-scopes", c)
		judgeFlameInj(w, c)
	})
	r.Gate("distinct_nontrivial", r.NonTrivialCount(), 5000)
	for _, k := range []string{"nt:candidates-in>=2-scopes", "nt:exact-and-implementor", "nt:unresolvable", "nt:re-registered", "invocations:fast", "invocations:reflective", "apply", "apply-unresolved", "flame-requests", "nt:request-shadows-application", "wrapping:context", "wrapping:http", "wrapping:handlerfunc", "wrapping:teapot", "wrapping:logger", "several-implementors-in-scope(any accepted)", "second-invocation-after-more-registrations", "nt:later-registration-changes-the-resolution", "apply-again-after-more-registrations", "context-remapped-before-context-handler", "apply-by-value-first", "typed-nil-registered", "framework-type-re-registered"} {
		r.GateCounter(k, 100)
	}
}

func c04Canaries(r *core.Run) {
	tbl := scopeTable{{tyI1: "outer", tyT1: "outerT1"}, {tyPT2: "innerImpl"}}
	acc, multi, _ := resolve(tbl, tyI1)
	r.Canary("oracle: same-scope implementor before the parent's exact registration", len(acc) == 1 && acc[0] == "innerImpl" && multi)
	ps := []reflect.Type{tyI1}
	ok := []reflect.Value{reflect.ValueOf(42), reflect.ValueOf("res")}
	r.Canary("parent consulted first", injVerdict(ps, [][]string{acc}, injObs{ran: 1, tags: []string{"outer"}, ret: ok}) != "")
	r.Canary("faithful passes", injVerdict(ps, [][]string{acc}, injObs{ran: 1, tags: []string{"innerImpl"}, ret: ok}) == "")
	r.Canary("body ran although unresolved", injVerdict(ps, [][]string{nil}, injObs{ran: 1, err: fmt.Errorf("value not found for type checks.cI1")}) != "")
	r.Canary("error does not name the type", injVerdict(ps, [][]string{nil}, injObs{err: fmt.Errorf("value not found")}) != "")
	r.Canary("results altered", injVerdict(ps, [][]string{acc}, injObs{ran: 1, tags: []string{"innerImpl"}, ret: []reflect.Value{reflect.ValueOf(41), reflect.ValueOf("res")}}) != "")
}
