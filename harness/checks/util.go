package checks

import "sync"

var parsersMu sync.Mutex
