//go:build !verif

package checks

import (
	"github.com/flamego/flamego"
	"github.com/flamego/flamego/internal/route"
)

const hooksCompiled = false

func treeInvariants(route.Tree) string                  { return "" }
func flameTreeInvariants(*flamego.Flame, string) string { return "" }
func staticTableInvariant(*flamego.Flame) (int, string) { return 0, "" }
