package checks

import (
	"bufio"
	"bytes"
	"encoding/json"
	"errors"
	"fmt"
	"io"
	"math/rand"
	"net"
	"net/http"
	"net/url"
	"runtime"
	"strconv"
	"strings"
	"sync"
	"time"

	"github.com/flamego/flamego"
	"github.com/flamego/flamego/verifharness/core"
)

type rwOp struct {
	Op   string `json:"op"` // header | write | copy (io.Copy from a plain reader) | flush | before | read
	Code int    `json:"code,omitempty"`
	N    int    `json:"n,omitempty"`
	Ctl  bool   `json:"through_response_controller,omitempty"` // flush / hijack: asked for through http.NewResponseController(w), as handlers written for Go 1.20+ do; it is the same operation on the same writer
	Reg  bool   `json:"hook_registers_another,omitempty"`      // before: the function, when it runs, registers one more function (which may or may not run; the ones registered earlier must still run exactly once, in reverse order)
}

type rwCase struct {
	Method   string  `json:"method"`
	Flusher  bool    `json:"underlying_flusher"`
	Full     bool    `json:"underlying_like_net_http,omitempty"` // the underlying writer has Flush, FlushError, Hijack and ReadFrom, as net/http's writers have
	ReaderFr bool    `json:"underlying_reader_from,omitempty"`   // the underlying writer also implements io.ReaderFrom (as net/http's does)
	FailAt   int     `json:"fail_at,omitempty"`                  // the k-th Write reaching the underlying writer misbehaves (0 = never)
	FailMode string  `json:"fail_mode,omitempty"`                // short | err | shorterr | not-allowed (0, http.ErrBodyNotAllowed) | closed-pipe (0, io.ErrClosedPipe) | short-sentinel (n/2, io.ErrShortWrite)
	Via      string  `json:"via"`                                // direct (NewResponseWriter) | handler (Context.ResponseWriter inside a request)
	Ops      []rwOp  `json:"ops"`
	Other    *rwCase `json:"interleaved_second_writer,omitempty"` // a second writer alive at the same time, its operations interleaved one by one (direct only)
}

func init() {
	register(&Check{ID: "C13", Run: runC13, Replay: func(w *core.W, kind string, raw json.RawMessage) {
		if kind == "two" {
			var tc twoCase
			if json.Unmarshal(raw, &tc) == nil {
				w.Begin("two", &tc)
				judgeTwo(w, &tc)
			}
			return
		}
		if kind == "huge" {
			var hc hugeCase
			if json.Unmarshal(raw, &hc) == nil {
				w.Begin("huge", &hc)
				judgeHuge(w, &hc)
			}
			return
		}
		var c rwCase
		if err := json.Unmarshal(raw, &c); err != nil {
			w.R.Inconclusive("replay case does not decode: " + err.Error())
			return
		}
		w.Begin("rw", &c)
		judgeRW(w, &c)
	}})
}

type rwSpy struct {
	h      http.Header
	log    *[]string
	failAt int
	mode   string
	writes int
}

func (s *rwSpy) Header() http.Header { return s.h }
func (s *rwSpy) WriteHeader(c int)   { *s.log = append(*s.log, fmt.Sprintf("H%d", c)) }
func (s *rwSpy) Write(b []byte) (int, error) {
	s.writes++
	n, err := len(b), error(nil)
	if s.failAt == s.writes {
		switch s.mode {
		case "short":
			n = len(b) / 2
		case "not-allowed": // what net/http answers once a 204 / 304 has been sent: nothing was taken
			n, err = 0, http.ErrBodyNotAllowed
		case "closed-pipe":
			n, err = 0, io.ErrClosedPipe
		case "short-sentinel":
			n, err = len(b)/2, io.ErrShortWrite
		case "err":
			err = errors.New("injected write error")
		default:
			n, err = len(b)/2, errors.New("injected short write")
		}
	}
	*s.log = append(*s.log, fmt.Sprintf("W%d", n))
	return n, err
}

// rwSpyFull offers what net/http's own writers offer: Flush, FlushError (Go 1.20+), Hijack, ReadFrom. Whatever
// optional methods the writer underneath has, the wrapper's state machine is the same.
type rwSpyFull struct{ rwSpyRF }

func (s rwSpyFull) Flush()            { *s.log = append(*s.log, "F") }
func (s rwSpyFull) FlushError() error { *s.log = append(*s.log, "F"); return nil }
func (s rwSpyFull) Hijack() (net.Conn, *bufio.ReadWriter, error) {
	*s.log = append(*s.log, "hijacked")
	return nil, nil, nil
}

type rwSpyF struct{ *rwSpy }

func (s rwSpyF) Flush() { *s.log = append(*s.log, "F") }

// rwSpyRF is an underlying writer that, like net/http's, also implements io.ReaderFrom.
type rwSpyRF struct{ *rwSpy }

func (s rwSpyRF) ReadFrom(r io.Reader) (int64, error) {
	b, _ := io.ReadAll(r)
	n, err := s.rwSpy.Write(b)
	return int64(n), err
}

type rwSpyRFF struct{ rwSpyRF }

func (s rwSpyRFF) Flush() { *s.log = append(*s.log, "F") }

// plainReader hides every optional interface of the reader (no WriteTo), as a file or a proxied body would.
type plainReader struct{ r io.Reader }

func (p plainReader) Read(b []byte) (int, error) { return p.r.Read(b) }

// rwObs is everything observed while driving one sequence.
type rwObs struct {
	log      []string // calls reaching the underlying writer + hook runs, in order
	readings [][3]int // after every op: Status, Size, Written(0/1)
	rets     [][2]int // per write op: returned n, err!=nil
	hookSaw  [][2]int // per hook run: hook id, Written/Status seen (0 ok, 1 bad)
	pan      interface{}
}

// rwStepper drives one sequence one operation at a time (so that two writers can be interleaved).
type rwStepper struct {
	c   *rwCase
	rw  flamego.ResponseWriter
	obs *rwObs
	i   int
	nh  int
}

func (st *rwStepper) step() bool {
	if st.i >= len(st.c.Ops) {
		return false
	}
	op, rw, obs := st.c.Ops[st.i], st.rw, st.obs
	st.i++
	switch op.Op {
	case "header":
		rw.WriteHeader(op.Code)
	case "write":
		n, err := rw.Write(make([]byte, op.N))
		e := 0
		if err != nil {
			e = 1
		}
		obs.rets = append(obs.rets, [2]int{n, e})
	case "copy":
		// streaming a body: io.Copy picks ReadFrom if the destination offers it
		n, err := io.Copy(rw, plainReader{bytes.NewReader(make([]byte, op.N))})
		e := 0
		if err != nil {
			e = 1
		}
		obs.rets = append(obs.rets, [2]int{int(n), e})
	case "flush":
		if op.Ctl {
			_ = http.NewResponseController(rw).Flush()
		} else {
			rw.Flush()
		}
	case "hijack":
		if op.Ctl {
			_, _, _ = http.NewResponseController(rw).Hijack()
		} else if hj, ok := rw.(http.Hijacker); ok {
			_, _, _ = hj.Hijack()
		}
	case "before":
		id := st.nh
		st.nh++
		rw.Before(func(x flamego.ResponseWriter) {
			bad := 0
			if x.Written() || x.Status() != 0 {
				bad = 1
			}
			obs.hookSaw = append(obs.hookSaw, [2]int{id, bad})
			obs.log = append(obs.log, fmt.Sprintf("hook%d", id))
			if op.Reg {
				x.Before(func(flamego.ResponseWriter) { obs.log = append(obs.log, fmt.Sprintf("late%d", id)) })
			}
		})
	}
	wr := 0
	if rw.Written() {
		wr = 1
	}
	obs.readings = append(obs.readings, [3]int{rw.Status(), rw.Size(), wr})
	return true
}

func driveRW(c *rwCase, rw flamego.ResponseWriter, obs *rwObs) {
	st := &rwStepper{c: c, rw: rw, obs: obs}
	for st.step() {
	}
}

// rwVerdict: the state machine of the statement plus the trace predicates.
func rwVerdict(c *rwCase, obs *rwObs) string {
	if obs.pan != nil {
		return fmt.Sprintf("panic: %v", obs.pan)
	}
	// --- predicted trace
	status, size, writes := 0, 0, 0
	var want []string
	var hooks []int
	nh := 0
	wi := 0
	trigger := func(code int) {
		if status != 0 {
			return
		}
		for i := len(hooks) - 1; i >= 0; i-- {
			want = append(want, fmt.Sprintf("hook%d", hooks[i]))
		}
		want = append(want, fmt.Sprintf("H%d", code))
		status = code
	}
	for k, op := range c.Ops {
		switch op.Op {
		case "header":
			trigger(op.Code)
		case "copy":
			if op.N == 0 {
				// io.Copy of an empty source performs no write at all
				if wi >= len(obs.rets) || obs.rets[wi] != [2]int{0, 0} {
					return fmt.Sprintf("op %d: copying an empty body returned %v", k, obs.rets)
				}
				wi++
				break
			}
			fallthrough
		case "write":
			trigger(200)
			wantN, wantErr := 0, 0
			if c.Method != "HEAD" {
				writes++
				wantN = op.N
				if c.FailAt == writes {
					switch c.FailMode {
					case "short":
						wantN = op.N / 2
					case "not-allowed", "closed-pipe":
						wantN, wantErr = 0, 1
					case "short-sentinel":
						wantN, wantErr = op.N/2, 1
					case "err":
						wantErr = 1
					default:
						wantN, wantErr = op.N/2, 1
					}
				}
				want = append(want, fmt.Sprintf("W%d", wantN))
				size += wantN
			}
			if wi >= len(obs.rets) {
				return fmt.Sprintf("op %d: write result not observed", k)
			}
			// io.Copy turns a short count into io.ErrShortWrite (also the 0 reported for HEAD): its result is
			// io's business, only what was forwarded and recorded is judged for copy
			if op.Op == "write" && obs.rets[wi] != [2]int{wantN, wantErr} {
				return fmt.Sprintf("op %d Write(%d bytes): returned (n=%d, err=%v), the underlying writer reported (n=%d, err=%v)", k, op.N, obs.rets[wi][0], obs.rets[wi][1] == 1, wantN, wantErr == 1)
			}
			wi++
		case "flush":
			trigger(200)
			if c.Flusher || c.Full {
				want = append(want, "F")
			}
		case "hijack":
			// taking over the connection is not a response: no status, no size, nothing written
			if c.Full {
				want = append(want, "hijacked")
			}
		case "before":
			hooks = append(hooks, nh)
			nh++
		}
		if k >= len(obs.readings) {
			return fmt.Sprintf("op %d: accessor readings missing", k)
		}
		rd := obs.readings[k]
		wr := 0
		if status != 0 {
			wr = 1
		}
		if rd[0] != status {
			return fmt.Sprintf("after op %d (%s): Status() = %d, want %d", k, op.Op, rd[0], status)
		}
		if rd[2] != wr {
			return fmt.Sprintf("after op %d (%s): Written() = %v although Status() = %d", k, op.Op, rd[2] == 1, rd[0])
		}
		if rd[1] != size {
			return fmt.Sprintf("after op %d (%s): Size() = %d, body bytes actually forwarded = %d", k, op.Op, rd[1], size)
		}
	}
	// --- trace predicates directly on the spy log
	nH, sawH := 0, false
	ran := map[string]int{}
	var plain []string // without the functions registered while the functions were running: whether those run is not stated
	for _, e := range obs.log {
		if !strings.HasPrefix(e, "late") {
			plain = append(plain, e)
		}
		switch {
		case strings.HasPrefix(e, "late"):
			ran[e]++
			if sawH {
				return e + " (registered by a running before-function) ran after the status line had reached the underlying writer"
			}
			if ran[e] > 1 {
				return e + " ran more than once"
			}
		case strings.HasPrefix(e, "H"):
			nH++
			sawH = true
		case strings.HasPrefix(e, "W"):
			if !sawH {
				return "body bytes reached the underlying writer before the status line"
			}
			if c.Method == "HEAD" {
				return "body bytes were forwarded for a HEAD request"
			}
		case e == "F":
			if !sawH {
				return "Flush reached the underlying writer before the status line"
			}
		case strings.HasPrefix(e, "hook"):
			ran[e]++
			if sawH {
				return e + " ran after the status line had reached the underlying writer"
			}
		}
	}
	if nH > 1 {
		return fmt.Sprintf("the underlying writer received %d status lines", nH)
	}
	for h, n := range ran {
		if n != 1 && !strings.HasPrefix(h, "late") {
			return fmt.Sprintf("%s ran %d times", h, n)
		}
	}
	for _, hs := range obs.hookSaw {
		if hs[1] != 0 {
			return fmt.Sprintf("hook%d observed Written()/Status() already set", hs[0])
		}
	}
	if a, b := strings.Join(plain, " "), strings.Join(want, " "); a != b {
		return fmt.Sprintf("forwarded calls differ\n observed:  %s\n predicted: %s", a, b)
	}
	return ""
}

func genRWCase(rng *rand.Rand) *rwCase {
	c := &rwCase{
		Method:   []string{"GET", "HEAD", "POST", "HEAD", "PUT", "DELETE", "PATCH", "OPTIONS", "CONNECT", "TRACE", "GET"}[rng.Intn(11)],
		Flusher:  rng.Intn(2) == 0,
		ReaderFr: rng.Intn(2) == 0,
		Full:     rng.Intn(4) == 0,
		FailAt:   []int{0, 0, 1, 2, 3}[rng.Intn(5)],
		FailMode: []string{"short", "err", "shorterr", "not-allowed", "closed-pipe", "short-sentinel"}[rng.Intn(6)],
		Via:      "direct",
	}
	if rng.Intn(5) == 0 {
		c.Via = "handler"
	} else if rng.Intn(5) == 0 {
		o := genRWCase(rng)
		o.Via, o.Other = "direct", nil
		c.Other = o
	}
	n := rng.Intn(13)
	if rng.Intn(50) == 0 {
		n = 13 + rng.Intn(40) // occasionally a long history (many hooks, many writes)
	}
	sizes := []int{0, 1, 2, 63, 64, 65, 511, 512, 513, 4095, 4096, 4097, 65536}
	for i := 0; i < n; i++ {
		if rng.Intn(40) == 0 {
			c.Ops = append(c.Ops, rwOp{Op: "write", N: sizes[rng.Intn(len(sizes))]})
			continue
		}
		switch rng.Intn(8) {
		case 0, 1:
			c.Ops = append(c.Ops, rwOp{Op: "header", Code: 100 + rng.Intn(900)})
		case 2:
			c.Ops = append(c.Ops, rwOp{Op: "write", N: rng.Intn(65)})
		case 3:
			if rng.Intn(2) == 0 {
				c.Ops = append(c.Ops, rwOp{Op: "copy", N: rng.Intn(65)})
			} else {
				c.Ops = append(c.Ops, rwOp{Op: "write", N: rng.Intn(65)})
			}
		case 4:
			ctl := len(c.Ops)%3 == 0 // (no draw of its own)
			if rng.Intn(4) == 0 {
				c.Ops = append(c.Ops, rwOp{Op: "hijack", Ctl: ctl})
			} else {
				c.Ops = append(c.Ops, rwOp{Op: "flush", Ctl: ctl})
			}
		case 5, 6:
			c.Ops = append(c.Ops, rwOp{Op: "before", Reg: rng.Intn(6) == 0})
		default:
			c.Ops = append(c.Ops, rwOp{Op: "read"})
		}
	}
	return c
}

func judgeRW(w *core.W, c *rwCase) {
	w.Eval()
	obs := &rwObs{}
	var otherObs *rwObs
	spy := &rwSpy{h: http.Header{}, log: &obs.log, failAt: c.FailAt, mode: c.FailMode}
	var under http.ResponseWriter = spy
	switch {
	case c.Full:
		under = rwSpyFull{rwSpyRF{spy}}
	case c.Flusher && c.ReaderFr:
		under = rwSpyRFF{rwSpyRF{spy}}
	case c.ReaderFr:
		under = rwSpyRF{spy}
	case c.Flusher:
		under = rwSpyF{spy}
	}
	func() {
		defer func() { obs.pan = recover() }()
		if c.Via == "handler" {
			f := flamego.NewWithLogger(io.Discard)
			f.Any("/rw", func(ctx flamego.Context) { driveRW(c, ctx.ResponseWriter(), obs) })
			f.ServeHTTP(under, &http.Request{Method: c.Method, URL: &url.URL{Path: "/rw"}, Header: http.Header{}})
			return
		}
		if c.Other != nil {
			// two writers alive at once: what belongs to one (status, size, before-functions) must not reach the other
			oobs := &rwObs{}
			ospy := &rwSpy{h: http.Header{}, log: &oobs.log, failAt: c.Other.FailAt, mode: c.Other.FailMode}
			var ounder http.ResponseWriter = ospy
			if c.Other.Full {
				ounder = rwSpyFull{rwSpyRF{ospy}}
			} else if c.Other.Flusher {
				ounder = rwSpyF{ospy}
			}
			a := &rwStepper{c: c, rw: flamego.NewResponseWriter(c.Method, under), obs: obs}
			b := &rwStepper{c: c.Other, rw: flamego.NewResponseWriter(c.Other.Method, ounder), obs: oobs}
			for {
				ma, mb := a.step(), b.step()
				if !ma && !mb {
					break
				}
			}
			otherObs = oobs
			return
		}
		driveRW(c, flamego.NewResponseWriter(c.Method, under), obs)
	}()
	if otherObs != nil {
		w.Count("interleaved-writers")
		if msg := rwVerdict(c.Other, otherObs); msg != "" {
			w.Violate("response-writer", c, "[second, interleaved writer] "+msg)
			return
		}
	}
	if msg := rwVerdict(c, obs); msg != "" {
		w.Violate("response-writer", c, msg)
		return
	}
	// coverage
	first, hooksBefore, headers, headWrite, fault := "", 0, 0, false, false
	writes := 0
	for _, op := range c.Ops {
		switch op.Op {
		case "header":
			headers++
			if first == "" {
				first = "WriteHeader"
			}
		case "write":
			if first == "" {
				first = "Write"
			}
			if c.Method == "HEAD" {
				headWrite = true
			} else {
				writes++
				if writes == c.FailAt {
					fault = true
				}
			}
		case "flush":
			if first == "" {
				first = "Flush"
			}
		case "before":
			if first == "" {
				hooksBefore++
				if op.Reg {
					w.Count("hook-registers-another-before-first-write")
				}
			}
		}
	}
	head := "non-HEAD"
	if c.Method == "HEAD" {
		head = "HEAD"
	}
	if first != "" {
		w.Count("first-trigger:" + first + "/" + head)
	}
	w.Count("via:" + c.Via)
	if fault {
		w.Count("fault-fired:" + c.FailMode)
	}
	if (first != "" && first != "WriteHeader") || hooksBefore >= 2 || headers >= 2 || headWrite || fault {
		b, _ := json.Marshal(c)
		w.NonTrivial(core.Hash64(string(b)), func() interface{} { return map[string]interface{}{"case": c, "forwarded": obs.log} })
	}
	w.Sample(func() interface{} { return map[string]interface{}{"case": c, "forwarded": obs.log} })
}

// hugeCase: one response whose forwarded body passes 2^31 and 2^32 bytes (the reported size is a count of bytes,
// not a 32-bit quantity).
type hugeCase struct {
	Chunk  int `json:"chunk_bytes"`
	Writes int `json:"writes"`
}

type rwDropSpy struct{ h http.Header }

func (s rwDropSpy) Header() http.Header         { return s.h }
func (s rwDropSpy) WriteHeader(int)             {}
func (s rwDropSpy) Write(b []byte) (int, error) { return len(b), nil }

func judgeHuge(w *core.W, c *hugeCase) {
	w.Eval()
	rw := flamego.NewResponseWriter("GET", rwDropSpy{h: http.Header{}})
	buf := make([]byte, c.Chunk)
	total := 0
	for i := 0; i < c.Writes; i++ {
		if i%512 == 0 {
			w.Begin("huge", c)
		}
		n, err := rw.Write(buf)
		if n != len(buf) || err != nil {
			w.Violate("response-writer-huge", c, fmt.Sprintf("write %d: returned (%d, %v)", i, n, err))
			return
		}
		total += len(buf)
		if rw.Size() != total {
			w.Violate("response-writer-huge", c, fmt.Sprintf("after %d bytes forwarded Size() = %d", total, rw.Size()))
			return
		}
	}
	w.Count("huge-responses")
}

// twoCase: a second goroutine of the same request uses the writer while the first one is still sending the
// status (it sits in a before-function): whatever the second one sends must come after the status line.
type twoCase struct {
	Second string `json:"second_goroutine_does"` // write | flush | header
	Code   int    `json:"first_status"`
}

type rwLockedSpy struct {
	mu  sync.Mutex
	h   http.Header
	log []string
}

func (s *rwLockedSpy) add(e string)        { s.mu.Lock(); s.log = append(s.log, e); s.mu.Unlock() }
func (s *rwLockedSpy) Header() http.Header { return s.h }
func (s *rwLockedSpy) WriteHeader(c int)   { s.add(fmt.Sprintf("H%d", c)) }
func (s *rwLockedSpy) Write(b []byte) (int, error) {
	s.add(fmt.Sprintf("W%d", len(b)))
	return len(b), nil
}
func (s *rwLockedSpy) Flush() { s.add("F") }

func judgeTwo(w *core.W, c *twoCase) {
	w.Eval()
	spy := &rwLockedSpy{h: http.Header{}}
	rw := flamego.NewResponseWriter("GET", spy)
	inHook, about, done := make(chan struct{}), make(chan struct{}), make(chan struct{})
	rw.Before(func(flamego.ResponseWriter) {
		close(inHook)
		<-about
		// give the other goroutine every chance to get ahead, were it able to
		for i := 0; i < 200; i++ {
			runtime.Gosched()
		}
		time.Sleep(300 * time.Microsecond)
	})
	go func() {
		defer close(done)
		<-inHook
		close(about)
		switch c.Second {
		case "write":
			_, _ = rw.Write([]byte("late"))
		case "flush":
			rw.Flush()
		default:
			rw.WriteHeader(599)
		}
	}()
	rw.WriteHeader(c.Code)
	<-done
	spy.mu.Lock()
	log := append([]string(nil), spy.log...)
	spy.mu.Unlock()
	if len(log) == 0 || log[0] != fmt.Sprintf("H%d", c.Code) {
		w.Violate("response-writer-two-goroutines", c, fmt.Sprintf("the underlying writer received %v: the status line of the first goroutine (%d) must come first", log, c.Code))
		return
	}
	nH := 0
	for _, e := range log {
		if strings.HasPrefix(e, "H") {
			nH++
		}
	}
	if nH != 1 || rw.Status() != c.Code {
		w.Violate("response-writer-two-goroutines", c, fmt.Sprintf("the underlying writer received %v, Status() = %d: one status line, the first one", log, rw.Status()))
		return
	}
	w.Count("second-goroutine-during-commit")
}

func runC13(r *core.Run) {
	r.Rule("random operation sequences (0-12) over WriteHeader(100..999), Write(0..64 bytes), Flush, Before(fn) (registered before and after the first write; one in six functions registers another function while it runs), reads; all nine methods (HEAD over-represented); underlying writer with/without Flusher; fault injection: the k-th underlying Write is short, fails, or both (also with the standard library's own error values, e.g. (0, http.ErrBodyNotAllowed)); four responses whose forwarded body passes 2^31 and 2^32 bytes; 600/20000 cases in which a second goroutine writes / flushes / sends a status while the first one is still inside a before-function; a quarter of the underlying writers offer Flush, FlushError, Hijack and ReadFrom as net/http's do, and Hijack is one of the operations; a third of the flushes and hijacks are asked for through http.NewResponseController; 1/5 of sequences run inside a handler on Context.ResponseWriter(). Oracle: 20-line state machine predicting every forwarded call, every Status/Size/Written reading and every Write result, plus predicates on the spy log (one status line, first; no body for HEAD; hooks once, reverse order, before the status line, seeing Written()==false). non-trivial = distinct sequences whose first status-sending op is not WriteHeader, or with >=2 hooks before it, or a second WriteHeader, or HEAD with a body write, or a fired fault")
	r.Assume("before-functions only record, read accessors and do not re-enter Write/WriteHeader (that deadlocks on sync.Once by Go's documented semantics)")
	c13Canaries(r)
	n := r.N(300000, 20000000)
	r.Parallel("seq", n, func(w *core.W, rng *rand.Rand, i int) {
		c := genRWCase(rng)
		w.Begin("rw", c)
		judgeRW(w, c)
	})
	r.Parallel("two-goroutines", r.N(600, 20000), func(w *core.W, rng *rand.Rand, i int) {
		c := &twoCase{Second: []string{"write", "flush", "header"}[rng.Intn(3)], Code: 200 + rng.Intn(300)}
		w.Begin("two", c)
		judgeTwo(w, c)
	})
	r.GateCounter("second-goroutine-during-commit", 500)
	if strconv.IntSize == 64 {
		huge := []hugeCase{{1 << 20, 2049}, {1 << 20, 4098}, {(1 << 20) + 1, 2100}, {1 << 16, 32769}}
		r.Parallel("huge", len(huge), func(w *core.W, _ *rand.Rand, i int) {
			c := huge[i]
			w.Begin("huge", &c)
			judgeHuge(w, &c)
		})
		r.GateCounter("huge-responses", int64(len(huge)))
	}
	r.Gate("distinct_nontrivial", r.NonTrivialCount(), 20000)
	for _, f := range []string{"WriteHeader", "Write", "Flush"} {
		for _, h := range []string{"HEAD", "non-HEAD"} {
			r.GateCounter("first-trigger:"+f+"/"+h, 100)
		}
	}
	for _, k := range []string{"fault-fired:short", "fault-fired:err", "fault-fired:shorterr", "fault-fired:not-allowed", "fault-fired:closed-pipe", "fault-fired:short-sentinel", "via:handler", "via:direct", "interleaved-writers", "hook-registers-another-before-first-write"} {
		r.GateCounter(k, 100)
	}
}

func c13Canaries(r *core.Run) {
	c := &rwCase{Method: "GET", Ops: []rwOp{{Op: "before"}, {Op: "before"}, {Op: "write", N: 4}, {Op: "header", Code: 500}}}
	good := &rwObs{log: []string{"hook1", "hook0", "H200", "W4"}, readings: [][3]int{{0, 0, 0}, {0, 0, 0}, {200, 4, 1}, {200, 4, 1}}, rets: [][2]int{{4, 0}}}
	r.Canary("faithful observation passes", rwVerdict(c, good) == "")
	mut := func(f func(o *rwObs)) bool {
		o := &rwObs{log: append([]string{}, good.log...), readings: append([][3]int{}, good.readings...), rets: append([][2]int{}, good.rets...)}
		f(o)
		return rwVerdict(c, o) != ""
	}
	r.Canary("hooks FIFO", mut(func(o *rwObs) { o.log[0], o.log[1] = "hook0", "hook1" }))
	r.Canary("second status line", mut(func(o *rwObs) { o.log = append(o.log, "H500") }))
	r.Canary("hook after status", mut(func(o *rwObs) { o.log = []string{"hook1", "H200", "hook0", "W4"} }))
	r.Canary("status recorded late", mut(func(o *rwObs) { o.readings[2] = [3]int{0, 4, 0} }))
	r.Canary("size miscounted", mut(func(o *rwObs) { o.readings[3] = [3]int{200, 8, 1} }))
	r.Canary("hook ran twice", mut(func(o *rwObs) { o.log = []string{"hook1", "hook0", "hook0", "H200", "W4"} }))
	ch := &rwCase{Method: "HEAD", Ops: []rwOp{{Op: "write", N: 3}}}
	r.Canary("HEAD body forwarded", rwVerdict(ch, &rwObs{log: []string{"H200", "W3"}, readings: [][3]int{{200, 3, 1}}, rets: [][2]int{{3, 0}}}) != "")
	r.Canary("body before status", rwVerdict(&rwCase{Method: "GET", Ops: []rwOp{{Op: "write", N: 3}}}, &rwObs{log: []string{"W3", "H200"}, readings: [][3]int{{200, 3, 1}}, rets: [][2]int{{3, 0}}}) != "")
}
