package checks

import (
	"encoding/base64"
	"encoding/json"
	"fmt"
	"io"
	stdlog "log"
	"math"
	"math/rand"
	"net/http"
	"net/url"
	"reflect"
	"strconv"
	"strings"
	"time"

	"github.com/flamego/flamego"
	"github.com/flamego/flamego/verifharness/core"
)

// accCase: one request whose query string / bind parameter is read by every accessor (C18).
type accCase struct {
	RawQuery core.B `json:"raw_query"`
	Name     string `json:"name"`
	Param    core.B `json:"param_segment"`       // raw path segment bound to {v}
	Form     string `json:"form_body,omitempty"` // POST with this urlencoded body; an earlier handler has parsed the form. Query accessors read the URL's query only
	XFF      core.B `json:"x_forwarded_for,omitempty"`
	XRealIP  core.B `json:"x_real_ip,omitempty"`
	Body     core.B `json:"body,omitempty"`            // request body (no form): Request().Body().Bytes() returns exactly these bytes
	BodyLen  string `json:"declared_length,omitempty"` // exact | unknown (ContentLength -1, as for a chunked request) | none (ContentLength 0 although a body follows)
}

// cookieCase: a value written with SetCookie, sent back by a client, read with Cookie.
type cookieCase struct {
	Name  string   `json:"name"`
	Value core.B   `json:"value"`
	Extra bool     `json:"other_cookies,omitempty"`
	Attr  string   `json:"attributes,omitempty"`                 // odd but harmless attributes on the judged cookie: domain-port | domain-scheme | path-semicolon | expires-1500 | partitioned-insecure | samesite-none. A bad attribute is the attribute's problem (net/http drops or cleans it); name=value still travels
	Junk  string   `json:"malformed_neighbours,omitempty"`       // the client's Cookie line also carries elements that are no cookies (written as given: before "|" in front, after it behind); the cookies next to them are as present as ever
	Scope string   `json:"same_name_for_another_path,omitempty"` // before | after: the same response also sets a cookie of the same name for the path /elsewhere, before or after the judged one (Path=/). Two cookies with one name and different paths are two cookies: both lines reach the client, and a client asking for /get sends back the one for /
	Sib   []string `json:"related_cookie_names,omitempty"`       // further cookies set in the same response, before (even index) or after (odd index) the judged one; their names are prefixes / extensions of the judged name. Every one of them is read back
}

func init() {
	register(&Check{ID: "C18", Run: runC18, Replay: func(w *core.W, kind string, raw json.RawMessage) {
		if kind == "cookie" {
			var c cookieCase
			if json.Unmarshal(raw, &c) == nil {
				w.Begin("cookie", &c)
				judgeCookie(w, &c)
			}
			return
		}
		var c accCase
		if json.Unmarshal(raw, &c) == nil {
			w.Begin("accessors", &c)
			judgeAcc(w, &c)
		}
	}})
}

type accReadings struct {
	Query, QueryD            string
	Trim, TrimD              string
	Strings, StringsD        []string
	Unescape, UnescapeD      string
	Bool, BoolD              bool
	Int, IntD                int
	Int64, Int64D            int64
	Float, FloatD            float64
	Param, ParamAbsent       string
	ParamInt, ParamIntAbsent int
	ParamInt64               int64
	ParamsLen                int
	Query2, Trim2, Unescape2 string   // the same accessors given two defaults: the first one is the default, for every accessor alike
	Strings2                 []string //
	Bool2                    bool     //
	Int2                     int      //
	Int642                   int64    //
	Float2                   float64  //
	AfterSliceEdit           string   // Query(name) after the caller edited the slice QueryStrings returned
	AfterRewrite             string   // Query("rewritten") after a handler rewrote URL.RawQuery
	AfterRewriteInt          int
	RemoteAddr               string
	BodyRead                 string // what Request().Body().Bytes() returned ("ERR:..." on error)
}

const (
	defS = "DEF ault"
	defI = 4242
	defF = 2.5
)

var defSS = []string{"D1", "D2"}

// accOracle states the rule of the property for every accessor.
func accOracle(c *accCase) accReadings {
	vals, _ := url.ParseQuery(string(c.RawQuery)) // "present" is what net/url parses
	list, present := vals[c.Name]
	first := ""
	if len(list) > 0 {
		first = list[0]
	}
	pick := func(def string, has bool) string {
		if first == "" && has {
			return def
		}
		return first
	}
	var w accReadings
	w.Query, w.QueryD = pick("", false), pick(defS, true)
	w.Trim, w.TrimD = strings.TrimSpace(w.Query), strings.TrimSpace(w.QueryD)
	if present {
		w.Strings, w.StringsD = list, list
	} else {
		w.Strings, w.StringsD = []string{}, defSS
	}
	un := func(s string) string {
		u, err := url.QueryUnescape(s)
		if err != nil {
			return ""
		}
		return u
	}
	w.Unescape, w.UnescapeD = un(w.Query), un(w.QueryD)
	pb := func(s string) bool { b, _ := strconv.ParseBool(s); return b }
	pi := func(s string) int { i, _ := strconv.ParseInt(s, 10, 0); return int(i) }
	pi64 := func(s string) int64 { i, _ := strconv.ParseInt(s, 10, 64); return i }
	pf := func(s string) float64 { f, _ := strconv.ParseFloat(s, 64); return f }
	w.Bool, w.Int, w.Int64, w.Float = pb(first), pi(first), pi64(first), pf(first)
	if first == "" {
		w.BoolD, w.IntD, w.Int64D, w.FloatD = true, defI, defI, defF
	} else {
		w.BoolD, w.IntD, w.Int64D, w.FloatD = w.Bool, w.Int, w.Int64, w.Float
	}
	w.Query2, w.Trim2, w.Unescape2, w.Strings2 = w.QueryD, w.TrimD, w.UnescapeD, w.StringsD
	w.Bool2, w.Int2, w.Int642, w.Float2 = w.BoolD, w.IntD, w.Int64D, w.FloatD
	seg := string(c.Param)
	if u, err := url.PathUnescape(seg); err == nil {
		seg = u
	}
	w.Param = seg
	w.ParamInt, w.ParamInt64 = pi(seg), pi64(seg)
	w.ParamsLen = 2 // v and route
	if c.Form == "" {
		w.BodyRead = string(c.Body)
	}
	w.AfterSliceEdit = w.Query
	w.AfterRewrite, w.AfterRewriteInt = "77", 77 // accessors read the request as it is now
	// RemoteAddr: X-Real-IP if non-empty, else X-Forwarded-For if non-empty (as carried), else the connection's address without the port
	switch {
	case c.XRealIP != "":
		w.RemoteAddr = string(c.XRealIP)
	case c.XFF != "":
		w.RemoteAddr = string(c.XFF)
	default:
		w.RemoteAddr = "192.0.2.7"
	}
	return w
}

func floatSame(a, b float64) bool {
	if math.IsNaN(a) || math.IsNaN(b) {
		return math.IsNaN(a) && math.IsNaN(b)
	}
	return a == b
}

func accVerdict(want, got accReadings) string {
	wv, gv := reflect.ValueOf(want), reflect.ValueOf(got)
	for i := 0; i < wv.NumField(); i++ {
		name := wv.Type().Field(i).Name
		a, b := wv.Field(i).Interface(), gv.Field(i).Interface()
		if fa, ok := a.(float64); ok {
			if !floatSame(fa, b.(float64)) {
				return fmt.Sprintf("%s = %v, rule says %v", name, b, a)
			}
			continue
		}
		if !reflect.DeepEqual(a, b) {
			return fmt.Sprintf("%s = %#v, rule says %#v", name, b, a)
		}
	}
	return ""
}

var accValues = []string{"", "", "x", "12", "-7", "+5", "007", "99999999999999999999", "-99999999999999999999", "9223372036854775807", "9223372036854775808", "0x10", "1_0", "1e3", "nan", "NaN", "inf", "-Inf", "1e999", "1.5", ".5", "5.", "true", "T", "1", "0", "false", "FALSE", "yes", " 12 ", "  ", "a b", "a+b", "100%", "%41", "%zz", "%", "a;b", "a&b", "a=b", "é", "\xff\xfe", "\x00", "中国 666", "１２", "1,000"}

func genAccCase(rng *rand.Rand) *accCase {
	c := &accCase{Name: "q"}
	esc := func(v string) string {
		switch rng.Intn(4) {
		case 0:
			return v // raw, possibly malformed
		default:
			return url.QueryEscape(v)
		}
	}
	var parts []string
	switch rng.Intn(10) {
	case 0: // absent
		parts = append(parts, "other=1")
		if rng.Intn(2) == 0 {
			// absent, but keys that merely resemble the name are there (list syntax of other frameworks, case, padding, prefix)
			la := []string{"q[]=x", "q%5B%5D=7", "q[0]=1", "q.=1", "qq=2", "Q=3", "q+=4", "+q=5", "q%00=6", "aq=7", "q[]=a&q[]=b"}
			for i := 1 + rng.Intn(2); i > 0; i-- {
				parts = append(parts, la[rng.Intn(len(la))])
			}
		}
	case 1: // present, empty
		parts = append(parts, "q=")
	case 2: // key only
		parts = append(parts, "q")
	case 3: // several values
		for i := 1 + rng.Intn(3); i > 0; i-- {
			parts = append(parts, "q="+esc(accValues[rng.Intn(len(accValues))]))
		}
	default:
		parts = append(parts, "q="+esc(accValues[rng.Intn(len(accValues))]))
	}
	if rng.Intn(3) == 0 {
		parts = append(parts, "lang="+esc(accValues[rng.Intn(len(accValues))]))
	}
	if rng.Intn(8) == 0 {
		parts = append(parts, []string{"Q=upper", "q%20=sp", "%71=encodedname", ";", "&&", "=novalue", "q[]=list", "q%5B%5D=list"}[rng.Intn(8)])
	}
	rng.Shuffle(len(parts), func(i, j int) { parts[i], parts[j] = parts[j], parts[i] })
	c.RawQuery = core.B(strings.Join(parts, "&"))
	if rng.Intn(25) == 0 {
		b := make([]byte, rng.Intn(30))
		for i := range b {
			b[i] = byte(rng.Intn(256))
		}
		c.RawQuery = core.B(b)
	}
	if rng.Intn(60) == 0 {
		// boundary lengths
		n := []int{255, 256, 1023, 1024, 4095, 4096, 65535, 65536}[rng.Intn(8)]
		c.RawQuery = core.B("q=" + strings.Repeat([]string{"7", "a", "%41"}[rng.Intn(3)], n))
	}
	seg := accValues[rng.Intn(len(accValues))]
	seg = strings.ReplaceAll(seg, "/", "")
	if seg == "" {
		seg = "0"
	}
	if rng.Intn(3) == 0 {
		seg = url.PathEscape(seg)
	}
	c.Param = core.B(seg)
	if rng.Intn(6) == 0 {
		// a form body that repeats the queried names with other values
		c.Form = "q=" + url.QueryEscape(accValues[rng.Intn(len(accValues))]) + "&q=second&lang=body&other=1"
	}
	if c.Form == "" && rng.Intn(5) == 0 {
		c.Body = core.B(accValues[rng.Intn(len(accValues))] + strings.Repeat("b", []int{0, 1, 511, 512, 513, 4096}[rng.Intn(6)]))
		c.BodyLen = []string{"exact", "unknown", "none", "unknown"}[rng.Intn(4)]
	}
	fw := []string{"", "", "", "10.0.0.1", "10.0.0.1, 10.0.0.2", ",", ", ,", " ", ",,", "::1", "é", "\x00"}
	c.XFF, c.XRealIP = core.B(fw[rng.Intn(len(fw))]), core.B(fw[rng.Intn(len(fw))])
	return c
}

func judgeAcc(w *core.W, c *accCase) {
	w.Eval()
	var got accReadings
	ran := false
	f := flamego.NewWithLogger(io.Discard)
	n := c.Name
	f.Any("/p/{v}", func(ctx flamego.Context) {
		if c.Form != "" {
			_ = ctx.Request().ParseForm() // what a form-binding middleware does before the handler runs
		}
	}, func(ctx flamego.Context) {
		ran = true
		got.Query, got.QueryD = ctx.Query(n), ctx.Query(n, defS)
		got.Trim, got.TrimD = ctx.QueryTrim(n), ctx.QueryTrim(n, defS)
		got.Strings, got.StringsD = ctx.QueryStrings(n), ctx.QueryStrings(n, defSS)
		got.Unescape, got.UnescapeD = ctx.QueryUnescape(n), ctx.QueryUnescape(n, defS)
		got.Bool, got.BoolD = ctx.QueryBool(n), ctx.QueryBool(n, true)
		got.Int, got.IntD = ctx.QueryInt(n), ctx.QueryInt(n, defI)
		got.Int64, got.Int64D = ctx.QueryInt64(n), ctx.QueryInt64(n, defI)
		got.Float, got.FloatD = ctx.QueryFloat64(n), ctx.QueryFloat64(n, defF)
		got.Query2, got.Trim2, got.Unescape2 = ctx.Query(n, defS, "second"), ctx.QueryTrim(n, defS, "second"), ctx.QueryUnescape(n, defS, "second")
		got.Strings2 = ctx.QueryStrings(n, defSS, []string{"second"})
		got.Bool2, got.Int2, got.Int642, got.Float2 = ctx.QueryBool(n, true, false), ctx.QueryInt(n, defI, 9), ctx.QueryInt64(n, defI, 9), ctx.QueryFloat64(n, defF, 9)
		got.Param, got.ParamAbsent = ctx.Param("v"), ctx.Param("nope")
		got.ParamInt, got.ParamIntAbsent = ctx.ParamInt("v"), ctx.ParamInt("nope")
		got.ParamInt64 = ctx.ParamInt64("v")
		got.ParamsLen = len(ctx.Params())
		got.RemoteAddr = ctx.RemoteAddr()
		if b, err := ctx.Request().Body().Bytes(); err != nil {
			got.BodyRead = "ERR:" + err.Error()
		} else {
			got.BodyRead = string(b)
		}
		// state must not be carried across calls: editing a returned slice or rewriting the query (the usual
		// rewrite-middleware pattern) is reflected by / does not disturb later reads
		if ss := ctx.QueryStrings(n); len(ss) > 0 {
			ss[0] = "EDITED-BY-CALLER"
		}
		got.AfterSliceEdit = ctx.Query(n)
		ctx.Request().URL.RawQuery = "rewritten=77"
		got.AfterRewrite, got.AfterRewriteInt = ctx.Query("rewritten"), ctx.QueryInt("rewritten", 5)
	})
	var pan interface{}
	func() {
		defer func() { pan = recover() }()
		req := &http.Request{Method: "GET", URL: &url.URL{Path: "/p/" + string(c.Param), RawQuery: string(c.RawQuery)}, Header: http.Header{}, RemoteAddr: "192.0.2.7:4711"}
		req.Body = http.NoBody
		if len(c.RawQuery)%2 == 0 {
			// the request reached the application through an enclosing mux (go1.22 patterns) and carries that mux's
			// wildcards, a header and a cookie - all under names the handler asks Param for. A parameter is what the
			// route bound, nothing else
			req.SetPathValue("nope", "42")
			req.SetPathValue("v", "from-an-enclosing-mux")
			req.Header.Set("Nope", "42")
			req.AddCookie(&http.Cookie{Name: "nope", Value: "42"})
			w.Count("requests-carrying-path-values-of-an-enclosing-mux")
		}
		if c.Form == "" && (len(c.Body) > 0 || c.BodyLen != "") {
			req.Method = "POST"
			req.Body = io.NopCloser(plainReader{strings.NewReader(string(c.Body))})
			switch c.BodyLen {
			case "unknown":
				req.ContentLength = -1
				req.TransferEncoding = []string{"chunked"}
			case "none":
				req.ContentLength = 0
			default:
				req.ContentLength = int64(len(c.Body))
			}
			w.Count("body-read:" + c.BodyLen)
		}
		if c.Form != "" {
			req.Method = "POST"
			req.Header.Set("Content-Type", "application/x-www-form-urlencoded")
			req.Body = io.NopCloser(strings.NewReader(c.Form))
			w.Count("form-body-parsed-before-reading")
		}
		if c.XFF != "" {
			req.Header["X-Forwarded-For"] = []string{string(c.XFF)}
		}
		if c.XRealIP != "" {
			req.Header["X-Real-Ip"] = []string{string(c.XRealIP)}
		}
		f.ServeHTTP(&retSpy{h: http.Header{}}, req)
	}()
	if pan != nil {
		w.Violate("accessor-panic", c, fmt.Sprintf("reading request data panicked: %v", pan))
		return
	}
	if !ran {
		return // the segment did not route (e.g. empty): nothing to judge
	}
	want := accOracle(c)
	if msg := accVerdict(want, got); msg != "" {
		w.Violate("accessor", c, fmt.Sprintf("query %q param %q: %s", string(c.RawQuery), string(c.Param), msg))
		return
	}
	// value class of the first value
	vals, _ := url.ParseQuery(string(c.RawQuery))
	list, present := vals[c.Name]
	cls := "absent"
	if present {
		v := ""
		if len(list) > 0 {
			v = list[0]
		}
		_, ierr := strconv.ParseInt(v, 10, 64)
		switch {
		case v == "":
			cls = "empty"
		case ierr == nil:
			cls = "well-formed-int"
		case strings.Contains(fmt.Sprint(ierr), "out of range"):
			cls = "out-of-range"
		case strings.ContainsAny(v, " %+&;=") || !isASCII(v):
			cls = "needs-escaping"
		default:
			if _, err := strconv.ParseFloat(v, 64); err == nil {
				cls = "well-formed-float"
			} else if _, err := strconv.ParseBool(v); err == nil {
				cls = "well-formed-bool"
			} else {
				cls = "malformed"
			}
		}
		if len(list) > 1 {
			w.Count("multi-valued")
		}
	}
	w.Count("class:" + cls)
	w.NonTrivial(core.Hash64("acc", cls, string(c.RawQuery), string(c.Param)), func() interface{} {
		return map[string]interface{}{"case": c, "class": cls, "readings": fmt.Sprintf("%+v", got)}
	})
	w.Sample(func() interface{} { return map[string]interface{}{"case": c, "class": cls} })
}

// c18Derived: cookie names spelled around n.
func c18Derived(n string) []string {
	out := []string{"__Host-" + n, "__Secure-" + n, "__Http-" + n, "__host-" + n, "$" + n, n + "[]", n + ".sig", "_" + n}
	for _, p := range []string{"__Host-", "__Secure-", "__Http-", "$", "_"} {
		if strings.HasPrefix(n, p) {
			out = append(out, n[len(p):])
		}
	}
	return out
}

func isASCII(s string) bool {
	for i := 0; i < len(s); i++ {
		if s[i] >= 0x80 || s[i] < 0x20 {
			return false
		}
	}
	return true
}

func judgeCookie(w *core.W, c *cookieCase) {
	stdlog.SetOutput(io.Discard) // net/http reports attributes it cleans through the standard logger
	w.Eval()
	setThenRead := ""
	f := flamego.NewWithLogger(io.Discard)
	f.Get("/set", func(ctx flamego.Context) {
		if c.Extra {
			ctx.SetCookie(http.Cookie{Name: "other", Value: "o=1; x"})
		}
		for i, n := range c.Sib {
			if i%2 == 0 && n != c.Name {
				ctx.SetCookie(http.Cookie{Name: n, Value: fmt.Sprintf("sib %d/ö", i)})
			}
		}
		if c.Scope == "before" {
			ctx.SetCookie(http.Cookie{Name: c.Name, Value: "for elsewhere", Path: "/elsewhere"})
		}
		ck := http.Cookie{Name: c.Name, Value: string(c.Value), Path: "/"}
		switch c.Attr {
		case "domain-port":
			ck.Domain = "localhost:2830"
		case "domain-scheme":
			ck.Domain = "https://example.com"
		case "path-semicolon":
			ck.Path = "/a;b"
		case "expires-1500":
			ck.Expires = time.Date(1500, 1, 1, 0, 0, 0, 0, time.UTC)
		case "partitioned-insecure":
			ck.Partitioned = true
		case "samesite-none":
			ck.SameSite = http.SameSiteNoneMode
		case "quoted":
			ck.Quoted = true // (go1.23) the value travels between double quotes; it is the same value
		case "raw-and-unparsed":
			ck.Raw, ck.Unparsed, ck.RawExpires = "other=1", []string{"x=y"}, "yesterday" // fields net/http fills when it parses; meaningless when writing
		case "max-age-negative":
			ck.MaxAge = 0
			ck.HttpOnly, ck.Secure = true, true
		}
		ctx.SetCookie(ck)
		if c.Scope == "after" {
			ctx.SetCookie(http.Cookie{Name: c.Name, Value: "for elsewhere", Path: "/elsewhere"})
		}
		// what is queued for the client is not what the client sent: reading in the same request still reads the request
		setThenRead = ctx.Cookie(c.Name)
		for i, n := range c.Sib {
			if i%2 == 1 && n != c.Name {
				ctx.SetCookie(http.Cookie{Name: n, Value: fmt.Sprintf("sib %d/ö", i)})
			}
		}
	})
	var got, missing string
	sibGot := map[string]string{}
	ran := false
	f.Get("/get", func(ctx flamego.Context) {
		ran = true
		got, missing = ctx.Cookie(c.Name), ctx.Cookie("never-set")
		for _, n := range c.Sib {
			sibGot[n] = ctx.Cookie(n)
		}
		if m2 := ctx.Cookie(strings.ToUpper(c.Name) + "X"); m2 != "" {
			missing = m2
		}
		// names a client did not send, spelled around the ones it did send (the prefixes of RFC 6265bis, attribute-like
		// and array-like spellings): absent is absent
		sentNames := append([]string{c.Name, "other"}, c.Sib...)
		for _, n := range sentNames {
			for _, d := range c18Derived(n) {
				isSent := false
				for _, m := range sentNames {
					isSent = isSent || m == d
				}
				if d == "" || isSent {
					continue
				}
				w.Count("cookie-absent-reads-of-related-names")
				if v := ctx.Cookie(d); v != "" && missing == "" {
					missing = fmt.Sprintf("%s (asked for %q; the request carries %q)", v, d, n)
				}
			}
		}
		if c.Extra && strings.ToUpper(c.Name) != c.Name {
			if d := ctx.Cookie(strings.ToUpper(c.Name)); d != "decoy" {
				missing = "decoy cookie read as " + d
			}
		}
	})
	var pan interface{}
	spy := &retSpy{h: http.Header{}}
	func() {
		defer func() { pan = recover() }()
		f.ServeHTTP(spy, &http.Request{Method: "GET", URL: &url.URL{Path: "/set"}, Header: http.Header{}})
	}()
	if pan != nil {
		w.Violate("cookie-panic", c, fmt.Sprintf("SetCookie panicked: %v", pan))
		return
	}
	// the client: parse Set-Cookie, send the cookies back
	resp := http.Response{Header: spy.h}
	if c.Scope != "" {
		// every SetCookie call queues a line of its own; the client keeps the cookie for /elsewhere to itself when it
		// asks for /get
		n := 0
		kept := spy.h["Set-Cookie"][:0:0]
		for _, line := range spy.h["Set-Cookie"] {
			one := (&http.Response{Header: http.Header{"Set-Cookie": {line}}}).Cookies()
			if len(one) == 1 && one[0].Name == c.Name && one[0].Path == "/elsewhere" {
				n++
				continue
			}
			kept = append(kept, line)
		}
		if n != 1 {
			w.Violate("cookie", c, fmt.Sprintf("the response set cookie %q for / and for /elsewhere (%s the other); %d Set-Cookie lines for /elsewhere reached the client (Set-Cookie: %q)", c.Name, c.Scope, n, spy.h["Set-Cookie"]))
			return
		}
		resp = http.Response{Header: http.Header{"Set-Cookie": kept}}
		w.Count("cookie-same-name-for-another-path")
	}
	req := &http.Request{Method: "GET", URL: &url.URL{Path: "/get"}, Header: http.Header{}}
	sent := 0
	upper := strings.ToUpper(c.Name)
	if c.Extra && upper != c.Name {
		// a different cookie whose name differs only in letter case comes first: names are matched exactly
		req.AddCookie(&http.Cookie{Name: upper, Value: "decoy"})
	}
	if c.Junk != "" {
		// one Cookie line, written by hand: junk in front, the cookies, junk behind
		var parts []string
		for _, ck := range resp.Cookies() {
			parts = append(parts, (&http.Cookie{Name: ck.Name, Value: ck.Value}).String())
			sent++
		}
		front, behind, _ := strings.Cut(c.Junk, "|")
		line := front + strings.Join(parts, "; ") + behind
		if prev := req.Header.Get("Cookie"); prev != "" {
			line = prev + "; " + line
		}
		req.Header.Set("Cookie", line)
		w.Count("cookie-line-with-malformed-neighbours")
	}
	for _, ck := range resp.Cookies() {
		if c.Junk != "" {
			break
		}
		if len(c.Value)%2 == 1 {
			// some clients send one Cookie header line per cookie
			req.Header.Add("Cookie", (&http.Cookie{Name: ck.Name, Value: ck.Value}).String())
		} else {
			req.AddCookie(&http.Cookie{Name: ck.Name, Value: ck.Value})
		}
		sent++
	}
	func() {
		defer func() { pan = recover() }()
		f.ServeHTTP(&retSpy{h: http.Header{}}, req)
	}()
	if pan != nil || !ran {
		w.Violate("cookie-panic", c, fmt.Sprintf("Cookie panicked or handler did not run: %v", pan))
		return
	}
	w.Count("cookie-round-trips")
	if setThenRead != "" {
		w.Violate("cookie", c, fmt.Sprintf("Cookie(%q) read %q in the request that merely queued it with SetCookie - the request did not carry it", c.Name, setThenRead))
		return
	}
	if c.Attr != "" {
		w.Count("cookie-with-odd-attributes")
	}
	if got != string(c.Value) {
		w.Violate("cookie", c, fmt.Sprintf("cookie value %q read back as %q (Set-Cookie: %q)", string(c.Value), got, spy.h["Set-Cookie"]))
		return
	}
	if missing != "" {
		w.Violate("cookie", c, fmt.Sprintf("a cookie that was never set reads %q", missing))
		return
	}
	for i, n := range c.Sib {
		if n == c.Name || n == "" {
			continue
		}
		dup := false // a name set twice: which of the two a client sends first is the client's business
		for j := range c.Sib {
			dup = dup || (j != i && c.Sib[j] == n)
		}
		if want := fmt.Sprintf("sib %d/ö", i); !dup && sibGot[n] != want {
			w.Violate("cookie", c, fmt.Sprintf("cookie %q set in the same response as %q: value %q read back as %q (Set-Cookie: %q)", n, c.Name, want, sibGot[n], spy.h["Set-Cookie"]))
			return
		}
	}
	if len(c.Sib) > 0 {
		w.Count("cookie-with-related-names")
	}
	cls := "plain"
	switch {
	case len(c.Value) == 0:
		cls = "empty"
	case !isASCII(string(c.Value)):
		cls = "non-ascii-or-control"
	case strings.ContainsAny(string(c.Value), " ;,=\"\\%+&"):
		cls = "separators"
	}
	w.Count("cookie-class:" + cls)
	w.NonTrivial(core.Hash64("cookie", string(c.Value)), func() interface{} {
		return map[string]interface{}{"case": c, "set_cookie": spy.h["Set-Cookie"]}
	})
}

func runC18(r *core.Run) {
	r.Rule("(a) every accessor (Query, QueryTrim, QueryStrings, QueryUnescape, QueryBool, QueryInt, QueryInt64, QueryFloat64 each with and without default; Param, ParamInt, ParamInt64, Params) reads a request whose query string is built from hostile values (absent, key only, empty, several values, raw or escaped: 20-digit numbers, 0x10, 1_0, nan, inf, 1e999, padded, separators + % ; = &, malformed escapes, non-UTF-8, NUL, full-width digits) or arbitrary bytes, and whose bind parameter is a hostile segment. Oracle: the statement's rule written with strconv / net/url on the oracle side. (b) cookie round trip SetCookie -> Set-Cookie header -> client Cookie header -> Cookie(name) for all 256 single bytes, all two-byte combinations of a separator alphabet and random byte strings, a fifth of which are sent in an already encoded form (query-escaped once or twice, path-escaped, lower-cased escapes, every byte escaped, base64, Go-quoted) - a value like any other; one response in six also sets a cookie of the same name for another path, which is a cookie of its own. non-trivial = distinct (value class, query string, segment) and distinct cookie values")
	r.Assume("`present` is what net/url parses out of the raw query; a QueryStrings key that is present returns its list even if the only value is empty (pinned by the suite)")
	c18Canaries(r)
	r.Parallel("acc", r.N(150000, 10000000), func(w *core.W, rng *rand.Rand, i int) {
		c := genAccCase(rng)
		w.Begin("accessors", c)
		judgeAcc(w, c)
	})
	// cookies: all single bytes (exhaustive), separator pairs, random strings
	r.Parallel("cookie1", 256, func(w *core.W, _ *rand.Rand, i int) {
		c := &cookieCase{Name: "n", Value: core.B([]byte{byte(i)}), Extra: i%2 == 0}
		w.Begin("cookie", c)
		w.Count("cookie-single-bytes")
		judgeCookie(w, c)
	})
	sep := " ;,=\"\\%+&\x00\xff\n\taé"
	sepB := []byte(sep)
	r.Parallel("cookie2", len(sepB)*len(sepB), func(w *core.W, _ *rand.Rand, i int) {
		c := &cookieCase{Name: "n", Value: core.B([]byte{sepB[i/len(sepB)], sepB[i%len(sepB)]})}
		w.Begin("cookie", c)
		judgeCookie(w, c)
	})
	longs := []string{strings.Repeat("a", 4000), strings.Repeat("a", 4090), strings.Repeat("a", 4097), strings.Repeat("a", 4200), strings.Repeat("中", 1400), strings.Repeat(";=,", 900), strings.Repeat("b", 8192), strings.Repeat(" ", 3000)}
	r.Parallel("cookieL", len(longs), func(w *core.W, _ *rand.Rand, i int) {
		c := &cookieCase{Name: "n", Value: core.B(longs[i])}
		w.Begin("cookie", c)
		w.Count("cookie-long-values")
		judgeCookie(w, c)
	})
	r.GateCounter("cookie-long-values", int64(len(longs)))
	r.Parallel("cookieR", r.N(20000, 2000000), func(w *core.W, rng *rand.Rand, i int) {
		b := make([]byte, rng.Intn(40))
		for j := range b {
			if rng.Intn(2) == 0 {
				b[j] = sepB[rng.Intn(len(sepB))]
			} else {
				b[j] = byte(rng.Intn(256))
			}
		}
		c := &cookieCase{Name: []string{"n", "sess-id", "a.b", "session", "cart+items", "a!b", "x#y$z", "p%q", "m&n", "it's", "s*", "c^d", "b`t", "u|v", "t~_-.", "__Host-sess", "__Secure-id", "_ga"}[rng.Intn(18)], Value: core.B(b), Extra: rng.Intn(3) == 0}
		if rng.Intn(6) == 0 {
			c.Attr = []string{"domain-port", "domain-scheme", "path-semicolon", "expires-1500", "partitioned-insecure", "samesite-none", "quoted", "quoted", "raw-and-unparsed", "max-age-negative"}[rng.Intn(10)]
		}
		if rng.Intn(6) == 0 {
			c.Junk = []string{"|;", "|; ", "; |", ";|;", "|; ;", "novalue; |", "bad name=1; |", "=x; |", "|; q=\"open", "|; =", "a b; |; c d", "\x01=1; |", "|;;;", " |  "}[rng.Intn(14)]
		}
		if rng.Intn(4) == 0 {
			for k := 1 + rng.Intn(3); k > 0; k-- {
				c.Sib = append(c.Sib, []string{c.Name + "_id", c.Name + "2", c.Name[:1], c.Name + c.Name, "x" + c.Name, c.Name + "-"}[rng.Intn(6)])
			}
		}
		enc := ""
		if rng.Intn(5) == 0 {
			// a value that is already the encoded image of another string (a stored redirect target, a token copied over
			// from another cookie, a quoted or base64 text): a value like any other, read back byte for byte
			v := string(b)
			switch rng.Intn(7) {
			case 0:
				v, enc = url.QueryEscape(v), "query-escaped"
			case 1:
				v, enc = url.PathEscape(v), "path-escaped"
			case 2:
				v, enc = url.QueryEscape(url.QueryEscape(v)), "query-escaped-twice"
			case 3:
				v, enc = base64.StdEncoding.EncodeToString(b), "base64"
			case 4:
				v, enc = strconv.Quote(v), "go-quoted"
			case 5:
				v, enc = strings.ToLower(url.QueryEscape(v)), "query-escaped-lower-case"
			default:
				var sb strings.Builder
				for _, x := range b {
					fmt.Fprintf(&sb, "%%%02X", x)
				}
				v, enc = sb.String(), "every-byte-escaped"
			}
			c.Value = core.B(v)
		}
		if rng.Intn(6) == 0 && c.Attr != "path-semicolon" {
			c.Scope = []string{"before", "after"}[rng.Intn(2)]
		}
		w.Begin("cookie", c)
		if enc != "" {
			w.Count("cookie-value-already-encoded")
			w.Count("cookie-value-already-encoded:" + enc)
		}
		judgeCookie(w, c)
	})
	r.GateCounter("cookie-value-already-encoded", 1000)
	r.GateCounter("cookie-same-name-for-another-path", 500)
	for _, k := range []string{"class:absent", "class:empty", "class:well-formed-int", "class:well-formed-float", "class:well-formed-bool", "class:malformed", "class:out-of-range", "class:needs-escaping", "multi-valued", "form-body-parsed-before-reading", "cookie-class:empty", "cookie-class:plain", "cookie-class:separators", "cookie-class:non-ascii-or-control", "cookie-with-related-names", "requests-carrying-path-values-of-an-enclosing-mux", "cookie-absent-reads-of-related-names", "cookie-line-with-malformed-neighbours", "cookie-with-odd-attributes", "body-read:unknown", "body-read:exact", "body-read:none"} {
		r.GateCounter(k, 20)
	}
	r.GateCounter("cookie-single-bytes", 256)
	r.Gate("distinct_nontrivial", r.NonTrivialCount(), 5000)
}

func c18Canaries(r *core.Run) {
	c := &accCase{RawQuery: "q=0x10", Name: "q", Param: "12"}
	want := accOracle(c)
	r.Canary("rule: base 10 only", want.Int == 0 && want.IntD == 0)
	g := want
	g.Int = 16
	r.Canary("QueryInt base 0", accVerdict(want, g) != "")
	c2 := &accCase{RawQuery: "q=7", Name: "q", Param: "1"}
	w2 := accOracle(c2)
	g2 := w2
	g2.IntD = defI
	r.Canary("default returned although present", accVerdict(w2, g2) != "")
	c3 := &accCase{RawQuery: "other=1", Name: "q", Param: "1"}
	w3 := accOracle(c3)
	r.Canary("rule: absent yields default / zero", w3.QueryD == defS && w3.Query == "" && w3.IntD == defI && w3.Int == 0 && len(w3.Strings) == 0)
	g3 := w3
	g3.FloatD = 0
	r.Canary("default ignored when absent", accVerdict(w3, g3) != "")
}
