package checks

import (
	"encoding/json"
	"fmt"
	"io"
	"math/rand"
	"net/http"
	"net/http/httptest"
	"net/url"
	"reflect"
	"regexp"
	"sort"
	"strings"

	"github.com/flamego/flamego"
	"github.com/flamego/flamego/internal/route"
	"github.com/flamego/flamego/verifharness/core"
	"github.com/flamego/flamego/verifharness/gen"
	"github.com/flamego/flamego/verifharness/rmodel"
)

// histCase is a router history: registrations, Headers() calls and requests
// interleaved (C09: judged by the reference model with per-route constraint
// sets; C10: judged by a twin tree populated identically).
type histCase struct {
	Steps   []histStep `json:"steps"`
	Wide    int        `json:"wide_position_static_alternatives,omitempty"` // the history ends with this many static alternatives under /wide (plus a placeholder one), some of them constrained
	RawPath bool       `json:"set_raw_path,omitempty"`                      // requests also carry URL.RawPath (valid non-canonical encoding of Path)
}

type histStep struct {
	Op     string      `json:"op"` // route | headers | req | autohead (AutoHead(On): routes are registered through Route/Routes/Any, which never add a HEAD twin, so the switch must not change any outcome)
	On     bool        `json:"on,omitempty"`
	Method string      `json:"method,omitempty"`
	Route  string      `json:"route,omitempty"`
	Ref    int         `json:"ref,omitempty"`   // headers: index (among route steps) of the Route object
	Pairs  []string    `json:"pairs,omitempty"` // headers: name, expression, name, expression …
	Path   core.B      `json:"path,omitempty"`
	Hdr    [][2]string `json:"hdr,omitempty"`
	Multi  bool        `json:"repeated_header_lines,omitempty"`                              // req: a name that occurs twice in hdr is sent on two lines (otherwise the later value replaces the earlier)
	Then   [][2]string `json:"then_edit_headers_and_serve_the_same_request_again,omitempty"` // req: afterwards the header map of the very same request object is edited (value "" = deleted) and the request is served again: the outcome follows the headers it has now
}

func init() {
	for _, id := range []string{"C09", "C10"} {
		id := id
		register(&Check{ID: id, Run: func(r *core.Run) { runHist(r, id) }, Replay: func(w *core.W, kind string, raw json.RawMessage) {
			if kind == "grid" {
				var gc gridCase
				if json.Unmarshal(raw, &gc) == nil {
					w.Begin("grid", &gc)
					judgeGrid(w, &gc)
				}
				return
			}
			var c histCase
			if err := json.Unmarshal(raw, &c); err != nil {
				w.R.Inconclusive("replay case does not decode: " + err.Error())
				return
			}
			w.Begin("history", &c)
			judgeHist(w, &c, id)
		}})
	}
}

var hdrNames = []string{"X-K", "X-Ver", "Accept", "x-k", "Content-Type", "X-K", "x-ver", "ACCEPT",
	// names that proxies, tracing and the standard library like to fill in
	"X-Request-Id", "X-Request-Start", "X-Forwarded-For", "User-Agent", "Accept-Encoding", "Content-Length", "Connection", "Host", "Date", "Traceparent"}
var hdrExprs = []string{"", "^v[0-9]$", "json", "^(a|b)$", "Chrome", "^$", "1", "(?i)^v1$", "(?i)chrome", "^(?i:a)$", "^zz$", "(?s)^.b.$",
	// an expression is a regular expression as it stands: slashes around it are two more characters to match
	"/^v1$/", "/json/", "/a/",
	// a header value is the bytes the client sent - in no particular encoding
	"^Orléans$", "^caf\\x{FFFD}$", "^[^a-zÿ]+$", "^.{3}$", "^café$"}
var hdrValues = []string{"", "v1", "v22", "application/json", "a", "b", "Chrome/1", "zz", " v1", "v1 ", "\ta", "b\n", " ", "zz, v1", "v1,zz", "x,a", "a, b", "text/html, application/json", "v1;q=1", "a|b", "V1", "CHROME/1", "A", "ZZ", "\nb\n", "/a/", "application/json/x", "Orl\xe9ans", "Orléans", "caf\xe9", "café", "\xff\xfe", "caf\ufffd", "a\xffb"}

// Long header values: a value is matched in full, however long it is (the only character that decides may be
// the last one).
func init() {
	for _, n := range []int{4096, 8192, 8193, 16384, 65536, 100000} {
		hdrValues = append(hdrValues,
			strings.Repeat("a", n),     // matches ^(a|b)$? no; matches "^[ab]*$"
			strings.Repeat("a", n)+"!", // spoiled at the very end
			strings.Repeat("0", n)+"v1",
			"v1"+strings.Repeat(" ", n)+"zz")
	}
	hdrExprs = append(hdrExprs, "^[ab]*$", "^[^!]*$", "v1$", "zz$", "^a+$",
		// an expression is a regular expression from its first character on
		"!v1", "!a", "!^v1$", "~v1", "=v1", "^!", "-v1")
	hdrValues = append(hdrValues, "!v1", "x!a", "!", "~v1", "=v1")
}

// pickHdr draws from a pool whose first `core` entries are the everyday ones (two draws in three come from them)
// and whose tail holds the rarer spellings added round by round; from = 1 skips the first entry.
func pickHdr(rng *rand.Rand, pool []string, core, from int) string {
	if rng.Intn(3) != 0 {
		return pool[from+rng.Intn(core-from)]
	}
	return pool[from+rng.Intn(len(pool)-from)]
}

// clipHdr shortens long header values for messages (the replay file has them in full).
func clipHdr(h [][2]string) [][2]string {
	out := make([][2]string, len(h))
	for i, kv := range h {
		if len(kv[1]) > 120 {
			kv[1] = fmt.Sprintf("%s…(%d bytes)…%s", kv[1][:40], len(kv[1]), kv[1][len(kv[1])-20:])
		}
		out[i] = kv
	}
	return out
}

func genPairs(rng *rand.Rand) []string {
	if rng.Intn(25) == 0 {
		// many constraints at once: every one of them gates
		var ps []string
		for i, n := 0, 7+rng.Intn(8); i < n; i++ {
			ps = append(ps, fmt.Sprintf("X-C%02d", i), []string{"^v1$", "", "^(a|b)$"}[rng.Intn(3)])
		}
		rng.Shuffle(len(ps)/2, func(i, j int) {
			ps[2*i], ps[2*j] = ps[2*j], ps[2*i]
			ps[2*i+1], ps[2*j+1] = ps[2*j+1], ps[2*i+1]
		})
		return ps
	}
	n := rng.Intn(3)
	if rng.Intn(8) == 0 {
		n = 0 // the empty set: unconstrained again (but still not served through the shortcut)
	} else if n == 0 {
		n = 1
	}
	var ps []string
	for i := 0; i < n; i++ {
		ps = append(ps, pickHdr(rng, hdrNames, 8, 0), pickHdr(rng, hdrExprs, 12, 0))
	}
	return ps
}

var hdrBadExprs = []string{"(", "[a", "*", "a{2,1}", "\\", "(?P<n", ")", "(?z)"}
var hdrGlue = []string{",", "=", ":", ";", "|", "&", " ", "\x00", "\n", "/", ""}

// genBadPairs: a list that cannot be applied (an expression that does not compile, at a random position, or
// a dangling name). The call fails loudly and the previous constraint set stays in force.
func genBadPairs(rng *rand.Rand) []string {
	ps := genPairs(rng)
	for len(ps) < 2 {
		ps = genPairs(rng)
	}
	if len(ps) == 2 || rng.Intn(2) == 0 {
		ps = append(ps, pickHdr(rng, hdrNames, 8, 0), pickHdr(rng, hdrExprs, 12, 1))
	}
	if rng.Intn(6) == 0 {
		return append(ps, "X-Dangling")
	}
	ps[1+2*rng.Intn(len(ps)/2)] = hdrBadExprs[rng.Intn(len(hdrBadExprs))]
	return ps
}

// gluedTwin: a different list that reads the same as ps when the arguments are joined by a separator.
func gluedTwin(rng *rand.Rand, ps []string) []string {
	if len(ps) < 4 {
		return nil
	}
	sep := hdrGlue[rng.Intn(len(hdrGlue))]
	if rng.Intn(2) == 0 {
		return []string{ps[0], regexpSafeJoin(ps[1:], sep)}
	}
	return []string{strings.Join(ps[:len(ps)-1], sep), ps[len(ps)-1]}
}

func regexpSafeJoin(parts []string, sep string) string {
	e := strings.Join(parts, sep)
	if _, err := regexp.Compile(e); err != nil {
		return regexp.QuoteMeta(e)
	}
	return e
}

func pairsBad(ps []string) bool {
	if len(ps)%2 != 0 {
		return true
	}
	for i := 1; i < len(ps); i += 2 {
		if _, err := regexp.Compile(ps[i]); err != nil {
			return true
		}
	}
	return false
}

func genReqHeaders(rng *rand.Rand, want []string) [][2]string {
	var out [][2]string
	if len(want) >= 14 {
		// many constraints: satisfy all of them, or all but exactly one
		miss := rng.Intn(len(want)/2 + 1)
		for i := 0; i+1 < len(want); i += 2 {
			if i/2 == miss && rng.Intn(2) == 0 {
				continue
			}
			v := "zz"
			if i/2 != miss {
				re := regexp.MustCompile(want[i+1])
				for _, cand := range hdrValues {
					if cand != "" && re.MatchString(cand) {
						v = cand
						break
					}
				}
			}
			out = append(out, [2]string{want[i], v})
		}
		return out
	}
	// route-directed: try to satisfy (or just miss) the constraints of a chosen route
	for i := 0; i+1 < len(want); i += 2 {
		if rng.Intn(5) == 0 {
			continue // header missing
		}
		v := pickHdr(rng, hdrValues, 25, 0)
		if rng.Intn(3) != 0 {
			// pick a value that matches the expression if there is one
			re := regexp.MustCompile(want[i+1])
			for _, cand := range hdrValues {
				if cand != "" && re.MatchString(cand) {
					v = cand
					break
				}
			}
		}
		name := want[i]
		if rng.Intn(4) == 0 {
			name = strings.ToUpper(name)
		} else if rng.Intn(6) == 0 {
			// the value arrives under another header's name: a header spelled like the constrained one is not that header
			name = []string{strings.ReplaceAll(name, "-", "_"), strings.ReplaceAll(name, "-", ""), "HTTP_" + strings.ToUpper(strings.ReplaceAll(name, "-", "_")), name + "-", name + "2", "X-" + name, strings.TrimPrefix(name, "X-"), strings.ReplaceAll(name, "-", "--"), "X-Forwarded-" + name}[rng.Intn(9)]
		}
		out = append(out, [2]string{name, v})
	}
	if rng.Intn(4) == 0 {
		out = append(out, [2]string{pickHdr(rng, hdrNames, 8, 0), pickHdr(rng, hdrValues, 25, 0)})
	}
	return out
}

func genHistCase(rng *rand.Rand, prop string) *histCase {
	c := &histCase{RawPath: rng.Intn(3) == 0}
	cfg := gen.Cfg{AllowRoot: true, MaxSegs: 3}
	staticBias := rng.Intn(3) != 0
	pool := gen.GenPool(rng, cfg)
	if staticBias {
		for i := range pool {
			if rng.Intn(3) != 0 {
				pool[i] = rmodel.Segment{Elems: []rmodel.Elem{{Lit: append(gen.Idents[:6:6], "%41", "%41", "a%21b")[rng.Intn(9)]}}}
			}
		}
	}
	methodsOf := [][]string{{"GET"}, {"GET", "POST"}, {"GET", "HEAD", "*"}, {"*"}, {"GET,POST", "GET"}, {"POST,GET,HEAD", "PUT,DELETE"}}[rng.Intn(6)]
	var routes []*rmodel.Route
	var routeMeth []string
	lastPairs := map[int][]string{}
	nSteps := 6 + rng.Intn(30)
	constrainP := 30 + rng.Intn(41) // 30–70 % of routes get constraints (C09)
	if prop == "C10" {
		constrainP = 15
	}
	var earlier [][]string // lists given earlier in this history (for glued twins)
	addHeaders := func(ref int) {
		ps := genPairs(rng)
		switch y := rng.Intn(12); {
		case y == 0:
			// a call that fails: nothing changes (lastPairs keeps directing requests at the set in force)
			c.Steps = append(c.Steps, histStep{Op: "headers", Ref: ref, Pairs: genBadPairs(rng)})
			return
		case y == 1 && len(earlier) > 0:
			if tw := gluedTwin(rng, earlier[rng.Intn(len(earlier))]); tw != nil {
				c.Steps = append(c.Steps, histStep{Op: "headers", Ref: ref, Pairs: tw})
				// requests are directed at the list the twin was glued from: those are the ones that tell them apart
				return
			}
		}
		c.Steps = append(c.Steps, histStep{Op: "headers", Ref: ref, Pairs: ps})
		lastPairs[ref] = ps
		if len(ps) >= 4 {
			earlier = append(earlier, ps)
		}
	}
	for s := 0; s < nSteps; s++ {
		x := rng.Intn(10)
		switch {
		case len(routes) == 0 || (x < 3 && len(routes) < 10):
			rt := gen.GenRoute(rng, pool, cfg)
			if rng.Intn(40) == 0 {
				// a deep route: 254-300 static segments, possibly ending in a placeholder
				n := []int{254, 255, 256, 257, 300}[rng.Intn(5)]
				rt = &rmodel.Route{}
				for k := 0; k < n; k++ {
					rt.Segs = append(rt.Segs, rmodel.Segment{Elems: []rmodel.Elem{{Lit: "s"}}})
				}
				if rng.Intn(2) == 0 {
					rt.Segs[n-1] = rmodel.Segment{Elems: []rmodel.Elem{{Bind: "deep"}}}
				}
			}
			if rng.Intn(12) == 0 {
				c.Steps = append(c.Steps, histStep{Op: "autohead", On: rng.Intn(3) != 0})
			}
			m := methodsOf[rng.Intn(len(methodsOf))]
			c.Steps = append(c.Steps, histStep{Op: "route", Method: m, Route: rt.Render()})
			routes = append(routes, rt)
			routeMeth = append(routeMeth, m)
			if rng.Intn(100) < constrainP {
				addHeaders(len(routes) - 1)
			}
		case x < 4:
			addHeaders(rng.Intn(len(routes)))
		default:
			ri := rng.Intn(len(routes))
			rt := routes[ri]
			var path string
			switch y := rng.Intn(20); {
			case y < 3: // the route text used as a path
				path = rt.Canon()
			case y < 5:
				path = strings.Replace(rt.Canon(), "/?", "/", 1)
			case y < 6:
				path = rt.Render()
			case y < 14: // exact instance of a form, possibly with extra slashes
				segs := gen.InstRoute(rng, rt, rng.Intn(2) == 0)
				path = "/" + strings.Join(segs, "/")
				switch rng.Intn(12) {
				case 0:
					path = "/" + path
				case 1:
					path += "/"
				case 2:
					path = strings.TrimLeft(path, "/")
				}
			case y < 15:
				path = ""
			case y < 16 && strings.Contains(rt.Canon(), "%"):
				// the decoded spelling of a literal that contains an escape sequence (the route matches raw segments)
				if u, err := url.PathUnescape(strings.Replace(rt.Canon(), "/?", "/", 1)); err == nil {
					path = u
				} else {
					path = rt.Canon()
				}
			default:
				path = gen.GenPath(rng, routes)
			}
			m := routeMeth[ri]
			if m == "*" {
				m = routerMethods[rng.Intn(len(routerMethods))]
			} else if l := strings.Split(m, ","); len(l) > 1 {
				m = l[rng.Intn(len(l))]
			}
			switch rng.Intn(15) {
			case 4:
				m = "HEAD"
			case 0:
				m = routerMethods[rng.Intn(len(routerMethods))]
			case 1:
				m = "BREW"
			case 2:
				m = strings.ToLower(m) // method tokens are case-sensitive on the wire: no route is registered for "get"
			case 3:
				m = m[:1] + strings.ToLower(m[1:])
			}
			rq := histStep{Op: "req", Method: m, Path: core.B(path), Hdr: genReqHeaders(rng, lastPairs[ri])}
			if want := lastPairs[ri]; len(want) >= 2 && rng.Intn(8) == 0 {
				// the same header on two lines
				rq.Multi = true
				extra := genReqHeaders(rng, want[:2])
				if rng.Intn(2) == 0 {
					rq.Hdr = append(extra, rq.Hdr...)
				} else {
					rq.Hdr = append(rq.Hdr, extra...)
				}
				if rng.Intn(3) == 0 {
					rq.Hdr = append(rq.Hdr, [2]string{want[0], ""}, [2]string{want[0], ""})
				}
			}
			if want := lastPairs[ri]; len(want) >= 2 && !rq.Multi && rng.Intn(8) == 0 {
				// then the very same request is served again with a constrained header changed or removed
				v := pickHdr(rng, hdrValues, 25, 0)
				if rng.Intn(3) == 0 {
					v = ""
				}
				rq.Then = [][2]string{{want[0], v}}
				if rng.Intn(2) == 0 {
					for _, kv := range genReqHeaders(rng, want) {
						rq.Then = append(rq.Then, kv)
					}
				}
			}
			c.Steps = append(c.Steps, rq)
		}
	}
	if rng.Intn(20) == 0 {
		// drawn after everything else: a wide position at the end of the history - 9-24 static alternatives under one
		// node (as leaves /wide/s<i> or as subtrees /wide/s<i>/t), a placeholder alternative among them, one to three of
		// the static ones constrained; requests for the constrained ones with passing and failing headers (a failing
		// constraint hands the request to the placeholder alternative, however many static neighbours there are)
		nst := 9 + rng.Intn(16)
		tail := []string{"", "/t"}[rng.Intn(2)]
		meth := "GET"
		base := 0
		for _, st := range c.Steps {
			if st.Op == "route" {
				base++
			}
		}
		at := rng.Intn(nst + 1)
		var refs []int
		for i := 0; i <= nst; i++ {
			if i == at {
				c.Steps = append(c.Steps, histStep{Op: "route", Method: meth, Route: "/wide/{wx}" + tail})
				continue
			}
			k := i
			if i > at {
				k = i - 1
			}
			c.Steps = append(c.Steps, histStep{Op: "route", Method: meth, Route: fmt.Sprintf("/wide/s%d%s", k, tail)})
			refs = append(refs, base+i)
		}
		for n := 1 + rng.Intn(3); n > 0; n-- {
			j := rng.Intn(len(refs))
			ps := genPairs(rng)
			c.Steps = append(c.Steps, histStep{Op: "headers", Ref: refs[j], Pairs: ps})
			for q := 2 + rng.Intn(4); q > 0; q-- {
				c.Steps = append(c.Steps, histStep{Op: "req", Method: meth, Path: core.B(fmt.Sprintf("/wide/s%d%s", j, tail)), Hdr: genReqHeaders(rng, ps)})
			}
			c.Steps = append(c.Steps, histStep{Op: "req", Method: meth, Path: core.B(fmt.Sprintf("/wide/s%d%s", rng.Intn(nst), tail)), Hdr: genReqHeaders(rng, ps)})
		}
		c.Wide = nst
	}
	if rng.Intn(4) == 0 {
		// drawn last, so that everything else about a history is what it was before: method lists are spelled in
		// lower or mixed case from their second item on ("GET,post", "POST,Get,head") - Routes() registers the
		// same methods, and Headers() on what it returns constrains every one of them
		for i := range c.Steps {
			if st := &c.Steps[i]; st.Op == "route" && strings.Contains(st.Method, ",") {
				l := strings.Split(st.Method, ",")
				for k := 1; k < len(l); k++ {
					if k%2 == 1 {
						l[k] = strings.ToLower(l[k])
					} else {
						l[k] = l[k][:1] + strings.ToLower(l[k][1:])
					}
				}
				st.Method = strings.Join(l, ",")
			}
		}
	}
	return c
}

// gridCase: very many fully static routes of one method on one instance (C10): each is answered through the
// shortcut and must be answered by itself, however many there are.
type gridCase struct {
	Side   int    `json:"side"` // Side x Side routes /shard<i>/item<j>
	Method string `json:"method"`
}

func judgeGrid(w *core.W, c *gridCase) {
	f := flamego.NewWithLogger(io.Discard)
	hit := -1
	nf := false
	f.NotFound(func() { nf = true })
	n := 0
	for i := 0; i < c.Side; i++ {
		if i%16 == 0 {
			w.Begin("grid", c)
		}
		for j := 0; j < c.Side; j++ {
			id := n
			f.Route(c.Method, fmt.Sprintf("/shard%d/item%d", i, j), []flamego.Handler{func() { hit = id }})
			n++
		}
	}
	w.CountN("grid-routes-registered", n)
	if cnt, msg := staticTableInvariant(f); msg != "" {
		w.Violate("table-invariant", c, msg)
		return
	} else if cnt > 0 {
		w.CountN("table-entries-enumerated", cnt)
	}
	k := 0
	for i := 0; i < c.Side; i++ {
		if i%16 == 0 {
			w.Begin("grid", c)
		}
		for j := 0; j < c.Side; j++ {
			p := fmt.Sprintf("/shard%d/item%d", i, j)
			hit, nf = -1, false
			f.ServeHTTP(httptest.NewRecorder(), &http.Request{Method: c.Method, URL: &url.URL{Path: p}, Header: http.Header{}, RequestURI: p})
			w.Eval()
			if hit != k || nf {
				w.Violate("grid", c, fmt.Sprintf("%s %s is route #%d of %d fully static routes; it was answered by route #%d (not-found ran: %v)", c.Method, p, k, n, hit, nf))
				return
			}
			k++
		}
	}
	w.CountN("grid-requests", k)
}

func runHist(r *core.Run, prop string) {
	if prop == "C09" {
		r.Rule("router histories (6-35 steps): registrations (static-biased pools; fully static, optional static, dynamic routes; single methods, method lists through Routes() (a quarter of the histories spell the later items in lower or mixed case) and Any; one route in forty is 254-300 segments deep; AutoHead switched at random points - registrations go through Route/Routes/Any, which add no HEAD twin), Headers() calls on 30-70% of routes and again later (0-2 pairs, empty set, empty expression, never-matching expression, differently-cased names), requests with route-directed header sets (matching / non-matching / empty / missing values; one list in twenty-five has 7-14 constraints and requests satisfy all of them or all but one; one request in eight repeats a header on two lines; one in eight is served a second time as the very same request object after a constrained header was changed or removed). Oracle: reference dispatch model restricted to routes whose latest constraint set passes (non-empty value matched by the expression, for every constrained header). non-trivial = distinct requests whose outcome differs from the outcome of the same request with all constraints satisfied (the constraint decided)")
	} else {
		r.Rule("router histories interleaving registrations (static, optional-static, dynamic shadowing candidates, several methods and Any), Headers() calls and requests; request paths include every route's text used as a path (raw, canonical, with '?'), instances, extra leading slashes, trailing slash, empty path, escapes. Oracle: route.Tree.Match on a twin tree per method that receives the same AddRoute / SetHeaderMatcher calls in the same order; with hooks the whole shortcut table is enumerated after every step and compared with tree matching on the router's own tree. One (thorough: three) instance with 257x257 (300x300, 363x363) fully static routes of one method, every one requested by its exact text. non-trivial = distinct requests answered through the shortcut (path equals a table key) or differing from a key only by slashes or '?'")
	}
	r.Assume("a header repeated on several lines is judged only where the first-value reading (http.Header.Get) and the any-value reading of \"carries a value that matches\" agree")
	histCanaries(r)
	n := r.N(10000, 600000)
	if prop == "C10" {
		n = r.N(12000, 800000)
	}
	r.Parallel("hist", n, func(w *core.W, rng *rand.Rand, i int) {
		c := genHistCase(rng, prop)
		w.Begin("history", c)
		judgeHist(w, c, prop)
	})
	if prop == "C09" {
		r.Gate("distinct_nontrivial", r.NonTrivialCount(), 3000)
		for _, k := range []string{"decided:static", "decided:optional-short", "decided:optional-long", "decided:multi-method", "decided:re-specified", "decided:dynamic"} {
			r.GateCounter(k, 50)
		}
		r.GateCounter("requests-compared", int64(n)*4)
		r.GateCounter("constraint-failed-lower-priority-took-over", 50)
		r.GateCounter("constraint-failed-not-found", 50)
		r.GateCounter("failed-headers-call-then-requests", 50)
		r.GateCounter("requests-with-repeated-header-lines", 50)
		r.GateCounter("same-request-served-again-after-header-edit", 50)
		r.GateCounter("method-list-spelled-in-mixed-case", 200)
		r.GateCounter("histories-with-a-wide-position", 100)
	} else {
		r.Gate("distinct_nontrivial", r.NonTrivialCount(), 5000)
		r.GateCounter("requests-compared", int64(n)*4)
		r.GateCounter("shortcut-answered", 5000)
		r.GateCounter("shortcut-key-after-headers-eviction", 500)
		r.GateCounter("near-key(slashes or ?)", 500)
		if hooksCompiled {
			r.GateCounter("table-entries-enumerated", 5000)
		}
		grids := []gridCase{{257, "GET"}}
		if r.Thorough() {
			grids = []gridCase{{257, "GET"}, {300, "POST"}, {363, "DELETE"}}
		}
		r.Parallel("grid", len(grids), func(w *core.W, _ *rand.Rand, i int) {
			c := grids[i]
			w.Begin("grid", &c)
			judgeGrid(w, &c)
		})
		r.GateCounter("grid-requests", 66049)
	}
}

type routeObj struct {
	idx     int
	ast     *rmodel.Route
	methods []string
	fr      *flamego.Route
	twin    map[string]route.Leaf
	nHdr    int
	buf     []string                  // the caller's argument buffer, reused between Headers() calls on this route
	cons    map[string]*regexp.Regexp // nil = never constrained
	static  bool
}

func consPass(cons map[string]*regexp.Regexp, h http.Header) bool {
	for name, re := range cons {
		v := h.Get(name)
		if v == "" || !re.MatchString(v) {
			return false
		}
	}
	return true
}

func judgeHist(w *core.W, c *histCase, prop string) {
	parser := parserOf(w)
	f := flamego.NewWithLogger(io.Discard)
	if c.Wide > 0 {
		w.Count("histories-with-a-wide-position")
	}
	drift := ""
	if len(c.Steps)%2 == 0 {
		// a middleware that reads the bind parameters again after Next(): they stay the request's while it is served,
		// whether the shortcut or the tree found the route
		f.Use(paramsWatch(&drift))
	}
	nf := false
	f.NotFound(func() { nf = true })
	hit := -1
	var seen map[string]string
	models := map[string]*rmodel.Model{}
	twins := map[string]route.Tree{}
	for _, m := range routerMethods {
		models[m] = rmodel.New()
		twins[m] = route.NewTree()
	}
	var objs []*routeObj // one per route step (nil if refused)
	twinHit := -1
	everEvicted := map[string]bool{} // method+" "+key evicted by Headers()

	for si, st := range c.Steps {
		switch st.Op {
		case "route":
			idx := len(objs)
			mr, merr := rmodel.Parse(st.Route)
			if merr != nil {
				objs = append(objs, nil)
				continue
			}
			up := strings.ToUpper(st.Method)
			methods := []string{up}
			if up == "*" {
				methods = routerMethods
			} else if strings.Contains(up, ",") {
				methods = strings.Split(up, ",") // Routes(): registered method by method, in list order
			}
			// model and twin advance method by method and stop where the router stops
			var okMethods []string
			refused := false
			for _, m := range methods {
				forms, cat, judged := models[m].Check(idx, mr)
				if !judged || cat != rmodel.RejNone {
					refused = true
					break
				}
				models[m].Commit(idx, mr, forms)
				okMethods = append(okMethods, m)
			}
			if st.Method != up && len(methods) > 1 {
				w.Count("method-list-spelled-in-mixed-case")
			}
			fr, pan := flameRegisterVia(f, strings.Contains(st.Method, ","), st.Method, st.Route, idx, &hit, &seen)
			if (pan != nil) != refused {
				w.Count("abandoned:accept-disagreement(C08)")
				return
			}
			if refused && len(methods) > 1 {
				// a registration for several methods that is refused part-way: which of the methods were registered
				// before the refusal depends on the order the router walks them in (C08/C11's subject); the history is
				// not judged any further (found by the thorough tier at seed 1: one request in 7.7 million)
				w.Count("abandoned:multi-method-registration-refused-part-way")
				return
			}
			o := &routeObj{idx: idx, ast: mr, methods: okMethods, fr: fr, twin: map[string]route.Leaf{}}
			o.static = true
			for i := range mr.Segs {
				sg, _ := rmodel.Classify(&mr.Segs[i])
				if sg.Kind != rmodel.KStatic {
					o.static = false
				}
			}
			for _, m := range okMethods {
				ir, _, _ := safeParse(parser, st.Route)
				i := idx
				leaf, err, tp := safeAdd(twins[m], ir, func(http.ResponseWriter, *http.Request, route.Params) { twinHit = i })
				if err != nil || tp != nil {
					w.Count("abandoned:twin-refused(C08)")
					return
				}
				o.twin[m] = leaf
			}
			if refused {
				// a partially applied Any: the Route object is lost with the panic, later Headers() steps cannot address it
				o.fr = nil
			}
			objs = append(objs, o)
		case "autohead":
			f.AutoHead(st.On)
			w.Count("autohead-switched")
		case "headers":
			if st.Ref >= len(objs) || objs[st.Ref] == nil || objs[st.Ref].fr == nil {
				continue
			}
			o := objs[st.Ref]
			var pan interface{}
			func() {
				defer func() { pan = recover() }()
				// callers commonly refill one buffer and pass it again: the router must not keep referring to it
				o.buf = append(o.buf[:0], st.Pairs...)
				o.fr.Headers(o.buf...)
			}()
			if pairsBad(st.Pairs) {
				if pan == nil {
					// what an accepted, inapplicable list would mean is not stated: the rest of the history is not judged
					w.Count("unjudged:inapplicable-headers-accepted")
					return
				}
				// the call failed: the set in force is the one before it
				w.Count("failed-headers-call-then-requests")
				continue
			}
			if pan != nil {
				w.Violate("headers-panic", c, fmt.Sprintf("step %d: Headers(%q) panicked: %v", si, st.Pairs, pan))
				return
			}
			cons := map[string]*regexp.Regexp{}
			for i := 1; i < len(st.Pairs); i += 2 {
				cons[st.Pairs[i-1]] = regexp.MustCompile(st.Pairs[i])
			}
			o.cons = cons
			o.nHdr++
			for _, m := range o.methods {
				mm := map[string]*regexp.Regexp{}
				for k, v := range cons {
					mm[k] = v
				}
				o.twin[m].SetHeaderMatcher(route.NewHeaderMatcher(mm))
				if o.static {
					everEvicted[m+" "+o.ast.Canon()] = true
				}
			}
		case "req":
			path := string(st.Path)
			hdr := http.Header{}
			for _, kv := range st.Hdr {
				if st.Multi {
					hdr.Add(kv[0], kv[1])
				} else {
					hdr.Set(kv[0], kv[1])
				}
			}
			req := &http.Request{Method: st.Method, URL: &url.URL{Path: path}, Header: hdr, RequestURI: path}
			if c.RawPath {
				req.URL.RawPath = nonCanonicalEncoding(path, si)
			}
			passes := 1
			if len(st.Then) > 0 {
				passes = 2
			}
			for pass := 0; pass < passes; pass++ {
				if pass == 1 {
					for _, kv := range st.Then {
						if kv[1] == "" {
							hdr.Del(kv[0])
						} else {
							hdr.Set(kv[0], kv[1])
						}
					}
					w.Count("same-request-served-again-after-header-edit")
				}
				w.Eval()
				hit, seen, nf = -1, nil, false
				drift = ""
				rec := httptest.NewRecorder()
				sent := reqView(req)
				var pan interface{}
				func() {
					defer func() { pan = recover() }()
					f.ServeHTTP(rec, req)
				}()
				if pan != nil {
					w.Violate("serve-panic", c, fmt.Sprintf("step %d: ServeHTTP(%s %q) panicked: %v", si, st.Method, path, pan))
					return
				}
				if got := seenRequest(&hit); hit >= 0 && got != sent {
					w.Violate("request-rewritten", c, fmt.Sprintf("step %d: the client sent\n   %s\n the route handler saw\n   %s\n(a constraint is judged on the header the request carries; nothing is added to it on the way)", si, sent, got))
					return
				}
				if (hit >= 0) == nf {
					w.Violate("chain-count", c, fmt.Sprintf("step %d: %s %q: route handler ran=%v and not-found ran=%v", si, st.Method, path, hit >= 0, nf))
					return
				}
				if drift != "" {
					w.Violate("params-after-next", c, fmt.Sprintf("step %d: %s %q: %s", si, st.Method, path, drift))
					return
				}
				obs := observed{found: hit >= 0, routeIdx: hit, params: seen, flame: true}
				if seen != nil {
					obs.routeText = seen["route"]
				}
				w.Count("requests-compared")
				if prop == "C09" {
					if !judgeC09Req(w, c, si, st, models[st.Method], objs, hdr, obs) {
						return
					}
				} else {
					if !judgeC10Req(w, c, si, st, twins[st.Method], &twinHit, objs, hdr, obs, everEvicted) {
						return
					}
				}
			}
		}
		if prop == "C10" && hooksCompiled && st.Op != "req" {
			n, msg := staticTableInvariant(f)
			w.CountN("table-entries-enumerated", n)
			if msg != "" {
				w.Violate("table-invariant", c, fmt.Sprintf("after step %d (%s): %s", si, st.Op, msg))
				return
			}
		}
	}
	w.Sample(func() interface{} { return c })
}

// consPassAny: every constrained header has SOME non-empty value (on any of its lines) that matches.
func consPassAny(cons map[string]*regexp.Regexp, h http.Header) bool {
	for name, re := range cons {
		ok := false
		for _, v := range h.Values(name) {
			if v != "" && re.MatchString(v) {
				ok = true
			}
		}
		if !ok {
			return false
		}
	}
	return true
}

func judgeC09Req(w *core.W, c *histCase, si int, st histStep, m *rmodel.Model, objs []*routeObj, hdr http.Header, obs observed) bool {
	path := string(st.Path)
	var best, bestAll *rmodel.Deriv
	if m != nil && st.Multi {
		// a header sent on several lines: "carries a value that matches" is read as the first value (what
		// http.Header.Get yields) by the implementation and could be read as any value; the request is judged only
		// where both readings agree
		strict, _ := m.Dispatch(path, func(ri int) bool { return objs[ri].cons == nil || consPass(objs[ri].cons, hdr) })
		lax, _ := m.Dispatch(path, func(ri int) bool { return objs[ri].cons == nil || consPassAny(objs[ri].cons, hdr) })
		if (strict == nil) != (lax == nil) || (strict != nil && strict.Form != lax.Form) {
			w.Count("unjudged:first-value-vs-any-value")
			return true
		}
		w.Count("requests-with-repeated-header-lines")
	}
	if m != nil {
		best, _ = m.Dispatch(path, func(ri int) bool {
			o := objs[ri]
			return o.cons == nil || consPass(o.cons, hdr)
		})
		bestAll, _ = m.Dispatch(path, nil)
	}
	if msg := dispatchVerdict(best, obs); msg != "" {
		detail := fmt.Sprintf("step %d: %s %q headers %v: %s", si, st.Method, path, clipHdr(st.Hdr), msg)
		if obs.found && obs.routeIdx < len(objs) && objs[obs.routeIdx] != nil && objs[obs.routeIdx].cons != nil && !consPass(objs[obs.routeIdx].cons, hdr) {
			detail += fmt.Sprintf("\nthe serving route #%d is constrained by %v and the request does not satisfy it", obs.routeIdx, consText(objs[obs.routeIdx].cons))
		}
		w.Violate("constraint-dispatch", c, detail)
		return false
	}
	if best != nil {
		if msg := paramsVerdict(best, obs); msg != "" {
			w.Violate("constraint-params", c, fmt.Sprintf("step %d: %s %q: %s", si, st.Method, path, msg))
			return false
		}
	}
	// did a constraint decide?
	if bestAll != nil && (best == nil || best.Form != bestAll.Form) {
		o := objs[bestAll.Form.RouteIdx]
		kinds := []string{}
		switch {
		case o.static && !o.ast.Segs[len(o.ast.Segs)-1].Optional:
			kinds = append(kinds, "static")
		case o.ast.Segs[len(o.ast.Segs)-1].Optional && bestAll.Form.Short:
			kinds = append(kinds, "optional-short")
		case o.ast.Segs[len(o.ast.Segs)-1].Optional:
			kinds = append(kinds, "optional-long")
		default:
			kinds = append(kinds, "dynamic")
		}
		if len(o.methods) > 1 {
			kinds = append(kinds, "multi-method")
		}
		if o.nHdr > 1 {
			kinds = append(kinds, "re-specified")
		}
		for _, k := range kinds {
			w.Count("decided:" + k)
		}
		if best == nil {
			w.Count("constraint-failed-not-found")
		} else {
			w.Count("constraint-failed-lower-priority-took-over")
		}
		w.NonTrivial(core.Hash64(histText(c, si), path, fmt.Sprint(st.Hdr)), func() interface{} {
			return map[string]interface{}{"history_prefix": c.Steps[:si+1], "constrained_route": bestAll.Form.Route, "constraints": consText(o.cons), "outcome": func() string {
				if best == nil {
					return "not found"
				}
				return best.Form.Route
			}(), "decided": kinds}
		})
	} else if best != nil {
		if o := objs[best.Form.RouteIdx]; o.cons != nil && len(o.cons) > 0 {
			w.Count("constrained-route-served-with-passing-headers")
		}
	}
	return true
}

func consText(cons map[string]*regexp.Regexp) []string {
	var out []string
	for k, v := range cons {
		out = append(out, k+"=~"+v.String())
	}
	sort.Strings(out)
	return out
}

func histText(c *histCase, upto int) string {
	var sb strings.Builder
	for _, s := range c.Steps[:upto] {
		if s.Op != "req" {
			sb.WriteString(s.Op + " " + s.Method + " " + s.Route + fmt.Sprint(s.Ref, s.Pairs) + "\n")
		}
	}
	return sb.String()
}

func judgeC10Req(w *core.W, c *histCase, si int, st histStep, twin route.Tree, twinHit *int, objs []*routeObj, hdr http.Header, obs observed, evicted map[string]bool) bool {
	path := string(st.Path)
	var tObs observed
	if twin != nil {
		*twinHit = -1
		leaf, params, ok, pan := safeMatch(twin, path, hdr)
		if pan != nil {
			w.Violate("twin-panic", c, fmt.Sprintf("step %d: Tree.Match(%q) on the twin panicked: %v", si, path, pan))
			return false
		}
		if ok {
			leaf.Handler()(nil, nil, params)
			tObs = observed{found: true, routeIdx: *twinHit, routeText: leaf.Route(), params: map[string]string{}}
			for k, v := range params {
				tObs.params[k] = v
			}
			tObs.params["route"] = leaf.Route()
		}
	}
	if msg := shortcutVerdict(obs, tObs); msg != "" {
		w.Violate("shortcut-observable", c, fmt.Sprintf("step %d: %s %q headers %v: %s", si, st.Method, path, clipHdr(st.Hdr), msg))
		return false
	}
	// non-triviality: is the path a (current or former) shortcut key, or near one
	for _, o := range objs {
		if o == nil || !o.static || o.ast.Segs[len(o.ast.Segs)-1].Optional {
			continue
		}
		inMethod := false
		for _, m := range o.methods {
			if m == st.Method {
				inMethod = true
			}
		}
		if !inMethod {
			continue
		}
		key := o.ast.Canon()
		switch {
		case path == key:
			if o.cons == nil {
				w.Count("shortcut-answered")
			} else {
				w.Count("shortcut-key-after-headers-eviction")
			}
			w.NonTrivial(core.Hash64(histText(c, si), st.Method, path), func() interface{} {
				return map[string]interface{}{"history_prefix": c.Steps[:si+1], "path": core.B(path), "route": key, "constrained": o.cons != nil}
			})
		case strings.Trim(path, "/") == strings.Trim(key, "/") || strings.ReplaceAll(path, "?", "") == key:
			w.Count("near-key(slashes or ?)")
			w.NonTrivial(core.Hash64(histText(c, si), st.Method, path), nil)
		}
	}
	return true
}

// shortcutVerdict compares the router's outcome with full tree matching.
func shortcutVerdict(router, tree observed) string {
	if router.found != tree.found {
		if router.found {
			return fmt.Sprintf("router served route #%d %q, full tree matching finds nothing", router.routeIdx, router.routeText)
		}
		return fmt.Sprintf("router: not found; full tree matching chooses route #%d %q", tree.routeIdx, tree.routeText)
	}
	if !router.found {
		return ""
	}
	if router.routeIdx != tree.routeIdx {
		return fmt.Sprintf("router served route #%d %q, full tree matching chooses route #%d %q", router.routeIdx, router.routeText, tree.routeIdx, tree.routeText)
	}
	if !reflect.DeepEqual(router.params, tree.params) {
		return fmt.Sprintf("parameters differ: router %v, full tree matching %v", router.params, tree.params)
	}
	return ""
}

func histCanaries(r *core.Run) {
	m := rmodel.New()
	a, _ := rmodel.Parse("/a/?b")
	m.Add(0, a)
	b, _ := rmodel.Parse("/{x}")
	m.Add(1, b)
	// route 0 constrained and failing: the model must fall back to route 1 for "/a"
	best, _ := m.Dispatch("/a", func(ri int) bool { return ri != 0 })
	r.Canary("constrained short form served without the header", dispatchVerdict(best, observed{found: true, routeIdx: 0, routeText: "/a/?b"}) != "")
	r.Canary("faithful fallback passes", dispatchVerdict(best, observed{found: true, routeIdx: 1, routeText: "/{x}"}) == "")
	none, _ := m.Dispatch("/a/b", func(ri int) bool { return ri != 0 })
	r.Canary("constraint failed but still served", dispatchVerdict(none, observed{found: true, routeIdx: 0}) != "")
	r.Canary("shortcut serves what the tree does not", shortcutVerdict(observed{found: true, routeIdx: 0, routeText: "/q/?r"}, observed{}) != "")
	r.Canary("shortcut drops a parameter", shortcutVerdict(observed{found: true, routeIdx: 0, params: map[string]string{}}, observed{found: true, routeIdx: 0, params: map[string]string{"route": "/a"}}) != "")
	r.Canary("shortcut picks another route", shortcutVerdict(observed{found: true, routeIdx: 1}, observed{found: true, routeIdx: 0}) != "")
	r.Canary("consPass: empty value fails", !consPass(map[string]*regexp.Regexp{"X-K": regexp.MustCompile("")}, http.Header{"X-K": {""}}))
}
