package checks

import (
	gocontext "context"
	"encoding/json"
	"errors"
	"fmt"
	"io"
	"math/rand"
	"net/http"
	"net/http/httptest"
	"net/url"
	"reflect"
	"strings"
	"time"

	"github.com/flamego/flamego"
	"github.com/flamego/flamego/verifharness/core"
)

// ---- handler programs -------------------------------------------------------

type act struct {
	Op   string `json:"op"` // ev | write | header | next | cancel | expire (the request gets a context whose deadline has passed) | panic | rectx (replace the request's context by a derived one; later cancels hit that one)
	Code int    `json:"code,omitempty"`
	Via  string `json:"via,omitempty"` // write: "" the context's writer | wrap (through NewResponseWriter layered on the context's writer, as a response-modifying middleware does) | mount (another Flame instance is handed the context's writer and the request and writes the same bytes). Whoever writes, the response has been written
}

type hspec struct {
	Acts    []act  `json:"acts,omitempty"`
	Ret     string `json:"ret,omitempty"`     // "" none | empty | string | intstring | intempty | err | nilerr | bytes | nilbytes
	Reflect bool   `json:"reflect,omitempty"` // invoked reflectively instead of through the fast path
}

type chainCase struct {
	MW       []hspec   `json:"middleware,omitempty"`
	Groups   [][]hspec `json:"groups,omitempty"` // outermost first
	RH       []hspec   `json:"route_handlers,omitempty"`
	NF       []hspec   `json:"notfound_handlers,omitempty"`
	Action   *hspec    `json:"action,omitempty"`
	NotFound bool      `json:"request_unrouted,omitempty"`                                // drive the not-found chain
	Probe    int       `json:"sibling_route_with_handler_prefix,omitempty"`               // >0: a sibling route /probe is registered with the first Probe handlers of the very slice /x is given (and requested first, or second when negative)
	Wrapper  bool      `json:"handler_wrapper,omitempty"`                                 // Router.HandlerWrapper turns the reflective func(Context,*http.Request) handlers into a FastInvoker
	SharedMW bool      `json:"middleware_through_handlers_from_a_shared_slice,omitempty"` // all but the last middleware are installed with Handlers(slice...) from a slice with spare capacity, the last one with Use; a second instance is then set up from the same slice with a Use of its own
	Scribble bool      `json:"caller_overwrites_its_slices_after_setup,omitempty"`        // func(Context) handlers are handed over as explicit ContextInvoker values, and every slice given to Use / Group / Route / NotFound is overwritten by the caller once the call has returned (a scratch slice reused for the next declaration)
	ActFirst bool      `json:"action_set_before_the_middleware,omitempty"`                // Action(...) is called first and the middleware is installed afterwards with Handlers(...): the action stays
	Cleared  bool      `json:"middleware_stack_cleared_first,omitempty"`                  // two middleware are installed and then Handlers() is called without arguments (documented to clear the stack) before the real set-up
	BadSetup bool      `json:"failed_setup_calls,omitempty"`                              // after set-up, Use(h, 42, h) and NotFound(h, "oops") are attempted and fail loudly (recovered): nothing of them may be left behind
	Before   string    `json:"before_handlers,omitempty"`                                 // Flame.Before handlers that decline (return false): decline | decline-103 (one of them sends "103 Early Hints" first). Whoever declines has ended nothing: the chain runs as if they were not there
	Method   string    `json:"method,omitempty"`                                          // GET (default) | HEAD | POST: for HEAD no body byte is forwarded, yet a body write still counts as "written"
}

func init() {
	register(&Check{ID: "C03", Run: runC03, Replay: func(w *core.W, kind string, raw json.RawMessage) {
		var c chainCase
		if err := json.Unmarshal(raw, &c); err != nil {
			w.R.Inconclusive("replay case does not decode: " + err.Error())
			return
		}
		w.Begin("chain", &c)
		judgeChain(w, &c)
	}})
}

// c03RedirectTargets: where a redirect action points (act.Code is the index) - also targets that do not parse as
// URLs, the way request-derived text arrives (a stray %, a bad escape). A redirect is sent; it is never a panic.
var c03RedirectTargets = []string{"/elsewhere", "/sale/100%/today", "/%zz", "/a b/c", "/elsewhere"}

func c03Target(a act) string {
	if a.Op != "redirect" || a.Code < 0 || a.Code >= len(c03RedirectTargets) {
		return "/elsewhere"
	}
	return c03RedirectTargets[a.Code]
}

func genHspec(r *rand.Rand) hspec {
	h := hspec{}
	n := r.Intn(6)
	for i := 0; i < n; i++ {
		x := r.Intn(40)
		switch {
		case x < 10:
			h.Acts = append(h.Acts, act{Op: "ev"})
		case x < 14:
			h.Acts = append(h.Acts, act{Op: "write", Via: []string{"", "", "", "wrap", "mount"}[r.Intn(5)]})
		case x < 16:
			h.Acts = append(h.Acts, act{Op: "copy"}) // streaming a body with io.Copy from a plain reader
		case x < 20:
			h.Acts = append(h.Acts, act{Op: "header", Code: []int{201, 204, 404, 500, 302, 100, 102, 103, 199, 101}[r.Intn(10)]})
		case x < 35:
			switch r.Intn(12) {
			case 0:
				h.Acts = append(h.Acts, act{Op: "nextr"})
			case 1:
				h.Acts = append(h.Acts, act{Op: "mapfw"})
			default:
				h.Acts = append(h.Acts, act{Op: "next"})
			}
		case x < 37:
			if r.Intn(3) == 0 {
				h.Acts = append(h.Acts, act{Op: "expire"})
			} else {
				h.Acts = append(h.Acts, act{Op: "cancel"})
			}
		case x < 38:
			h.Acts = append(h.Acts, act{Op: []string{"rectx", "rectx", "rectxi", "detach", "redirect"}[r.Intn(5)], Code: r.Intn(len(c03RedirectTargets))})
		default:
			h.Acts = append(h.Acts, act{Op: "panic"})
		}
	}
	h.Ret = []string{"", "", "", "", "empty", "string", "intstring", "intempty", "err", "nilerr", "bytes", "nilbytes"}[r.Intn(12)]
	h.Reflect = r.Intn(2) == 0
	return h
}

func genChainCase(r *rand.Rand) *chainCase {
	c := &chainCase{}
	if r.Intn(40) == 0 {
		// occasionally a long chain (slice-growth boundaries) of mostly passing handlers
		for i := 3 + r.Intn(14); i > 0; i-- {
			h := genHspec(r)
			if r.Intn(3) != 0 {
				h = hspec{Acts: []act{{Op: "ev"}}, Reflect: r.Intn(2) == 0}
				if r.Intn(2) == 0 {
					h.Acts = append(h.Acts, act{Op: "next"})
				}
			}
			c.MW = append(c.MW, h)
		}
	}
	for i := r.Intn(4); i > 0; i-- {
		c.MW = append(c.MW, genHspec(r))
	}
	for g := r.Intn(4); g > 0; g-- {
		var hs []hspec
		for i := r.Intn(3); i > 0; i-- {
			hs = append(hs, genHspec(r))
		}
		c.Groups = append(c.Groups, hs)
	}
	for i := 1 + r.Intn(4); i > 0; i-- {
		c.RH = append(c.RH, genHspec(r))
	}
	if r.Intn(2) == 0 {
		h := genHspec(r)
		c.Action = &h
	}
	if r.Intn(60) == 0 {
		// pad the whole chain to a length around a power of two with passing handlers, spread over middleware,
		// the innermost group and the route
		target := []int{63, 64, 65, 66, 127, 128, 129, 130, 255, 256, 257}[r.Intn(11)]
		total := len(c.MW) + len(c.RH)
		for _, g := range c.Groups {
			total += len(g)
		}
		if len(c.Groups) == 0 {
			c.Groups = append(c.Groups, nil)
		}
		for ; total < target; total++ {
			h := hspec{Acts: []act{{Op: "ev"}}, Reflect: r.Intn(2) == 0}
			if r.Intn(3) == 0 {
				h.Acts = append(h.Acts, act{Op: "next"})
			}
			switch r.Intn(3) {
			case 0:
				c.MW = append(c.MW, h)
			case 1:
				gi := len(c.Groups) - 1
				c.Groups[gi] = append(c.Groups[gi], h)
			default:
				c.RH = append([]hspec{h}, c.RH...)
			}
		}
	}
	c.SharedMW = len(c.MW) >= 2 && r.Intn(5) == 0
	c.BadSetup = r.Intn(6) == 0
	c.Before = []string{"", "", "", "", "decline", "decline-103"}[r.Intn(6)]
	c.Scribble = r.Intn(5) == 0
	c.Cleared = r.Intn(8) == 0
	c.ActFirst = c.Action != nil && r.Intn(4) == 0
	c.Method = []string{"GET", "GET", "GET", "HEAD", "HEAD", "POST"}[r.Intn(6)]
	c.Wrapper = r.Intn(4) == 0
	if len(c.RH) >= 2 && r.Intn(5) == 0 {
		c.Probe = 1 + r.Intn(len(c.RH)-1)
	}
	if r.Intn(6) == 0 {
		c.NotFound = true
		for i := r.Intn(3); i > 0; i-- {
			c.NF = append(c.NF, genHspec(r))
		}
	}
	return c
}

// chain flattens the program into the chain the statement prescribes:
// application middleware, group handlers outermost first, route handlers, action.
func (c *chainCase) chain() []*hspec {
	var out []*hspec
	for i := range c.MW {
		out = append(out, &c.MW[i])
	}
	if c.NotFound {
		for i := range c.NF {
			out = append(out, &c.NF[i])
		}
	} else {
		for g := range c.Groups {
			for i := range c.Groups[g] {
				out = append(out, &c.Groups[g][i])
			}
		}
		for i := range c.RH {
			out = append(out, &c.RH[i])
		}
	}
	out = append(out, c.Action) // may be nil
	return out
}

func (c *chainCase) method() string {
	if c.Method == "" {
		return "GET"
	}
	return c.Method
}

type chainSentinel struct{ why string }

// c03Fast is what a user's HandlerWrapper turns func(Context, *http.Request) handlers into.
type c03Fast func(flamego.Context, *http.Request)

func (f c03Fast) Invoke(args []interface{}) ([]reflect.Value, error) {
	f(args[0].(flamego.Context), args[1].(*http.Request))
	return nil, nil
}

// ---- statement-level interpreter ---------------------------------------------

type chainSim struct {
	head      bool
	chain     []*hspec
	next      int
	written   bool
	status    int
	body      strings.Builder
	cancelled bool
	stale     bool // the cancel function at hand belongs to a context the request no longer derives from (after detach)
	get       bool // the request method is GET (a redirect then has a short body)
	ct        bool // a Content-Type header has been set (by an earlier redirect)
	foreign   bool // a handler has mapped an independent writer as the request's http.ResponseWriter service: returned values go there
	tr        []string
}

func (s *chainSim) header(code int) {
	if s.written {
		return
	}
	s.written, s.status = true, code
	s.tr = append(s.tr, fmt.Sprintf("spy:H%d", code))
}

func (s *chainSim) write(b string) {
	s.header(200)
	if s.head {
		return // HEAD: the status is committed, no body byte is forwarded
	}
	s.body.WriteString(b)
	s.tr = append(s.tr, "spy:W"+b)
}

func (s *chainSim) run() {
	for s.next < len(s.chain) {
		if s.cancelled {
			return
		}
		i := s.next
		h := s.chain[i]
		s.next++
		if h == nil {
			return
		}
		s.exec(i, h)
		if s.written {
			return
		}
	}
}

func (s *chainSim) exec(i int, h *hspec) {
	func() {
		s.tr = append(s.tr, fmt.Sprintf("enter%d", i))
		defer func() { s.tr = append(s.tr, fmt.Sprintf("exit%d", i)) }()
		for k, a := range h.Acts {
			switch a.Op {
			case "ev":
				s.tr = append(s.tr, fmt.Sprintf("ev%d.%d", i, k))
			case "write", "copy":
				if a.Via == "mount" && s.cancelled {
					break // the mounted instance does not start a handler for a request whose context is done
				}
				s.write(fmt.Sprintf("w%d.%d;", i, k))
			case "header":
				s.header(a.Code)
			case "next":
				s.tr = append(s.tr, fmt.Sprintf("nb%d.%d", i, k))
				s.run()
				s.tr = append(s.tr, fmt.Sprintf("ne%d.%d", i, k))
			case "nextr":
				s.tr = append(s.tr, fmt.Sprintf("nb%d.%d", i, k))
				func() {
					defer func() {
						if p := recover(); p != nil {
							if cs, ok := p.(chainSentinel); !ok || cs.why != "program" {
								panic(p)
							}
							s.tr = append(s.tr, fmt.Sprintf("recovered%d.%d", i, k))
						}
					}()
					s.run()
				}()
				s.tr = append(s.tr, fmt.Sprintf("ne%d.%d", i, k))
			case "mapfw":
				s.foreign = true
				s.tr = append(s.tr, fmt.Sprintf("mapfw%d.%d", i, k))
			case "cancel":
				if s.stale {
					s.tr = append(s.tr, fmt.Sprintf("stale-cancel%d.%d", i, k)) // cancels a context the request has left behind
					break
				}
				s.cancelled = true
				s.tr = append(s.tr, fmt.Sprintf("cancel%d.%d", i, k))
			case "expire":
				s.cancelled, s.stale = true, false
				s.tr = append(s.tr, fmt.Sprintf("cancelx%d.%d", i, k))
			case "rectx", "rectxi":
				s.stale = false
				s.tr = append(s.tr, fmt.Sprintf("rectx%d.%d", i, k))
			case "detach":
				// the request goes on under a context that is not derived from the incoming one (context.WithoutCancel):
				// whatever becomes of the contexts it has left behind, the request's own context decides
				s.cancelled, s.stale = false, true
				s.tr = append(s.tr, fmt.Sprintf("detach%d.%d", i, k))
			case "redirect":
				s.tr = append(s.tr, fmt.Sprintf("redirect%d.%d", i, k))
				s.header(302)
				// net/http's Redirect adds its short HTML body only to GET requests, and only if no Content-Type was set
				// before (it sets one for GET and HEAD itself: a second redirect in the same request finds it)
				if (s.get || s.head) && !s.ct {
					s.ct = true
					if s.get {
						s.write("<a href=\"" + c03Target(a) + "\">Found</a>.\n\n")
					}
				}
			case "panic":
				panic(chainSentinel{"program"})
			}
		}
	}()
	// the return value is rendered after the handler has returned - through the http.ResponseWriter the request's
	// injector holds; if a handler has put an independent writer there, the response itself stays unwritten
	if s.foreign {
		return
	}
	switch h.Ret {
	case "string":
		s.write(fmt.Sprintf("r%d;", i))
	case "bytes":
		s.write(fmt.Sprintf("b%d;", i))
	case "intstring":
		s.header(202)
		s.write(fmt.Sprintf("r%d;", i))
	case "intempty":
		s.header(203)
	case "err":
		s.header(500)
		s.write(fmt.Sprintf("e%d;", i))
	}
}

// ---- instrumented real chain ---------------------------------------------------

type chainSpy struct {
	hdr    http.Header
	tr     *[]string
	status int
	body   strings.Builder
	hints  int   // "103 Early Hints" sent while *early is set: an interim response, as on a net/http connection - nothing of the final response is decided by it
	early  *bool // set by the harness's Before handler around its WriteHeader(103)
}

func (s *chainSpy) Header() http.Header { return s.hdr }
func (s *chainSpy) WriteHeader(c int) {
	if s.early != nil && *s.early && c == http.StatusEarlyHints && s.status == 0 {
		s.hints++
		return
	}
	if s.status == 0 {
		s.status = c
	}
	*s.tr = append(*s.tr, fmt.Sprintf("spy:H%d", c))
}

// ReadFrom: like net/http's writer, the spy also offers io.ReaderFrom.
func (s *chainSpy) ReadFrom(r io.Reader) (int64, error) {
	b, _ := io.ReadAll(r)
	n, err := s.Write(b)
	return int64(n), err
}

func (s *chainSpy) Write(b []byte) (int, error) {
	if s.status == 0 {
		s.status = 200
	}
	s.body.Write(b)
	*s.tr = append(*s.tr, "spy:W"+string(b))
	return len(b), nil
}

type chainExec struct {
	explicitFast bool
	tr           []string
	entered      map[int]int
	cancel       gocontext.CancelFunc
	reenter      string
	early        bool // the Before handler is sending its interim response right now
	stale        bool // x.cancel belongs to a context the request no longer derives from
}

func (x *chainExec) mk(i int, h *hspec) flamego.Handler {
	body := func(c flamego.Context) {
		x.entered[i]++
		if x.entered[i] > 1 {
			// recursion guard: at-most-once is already violated; unwind instead of looping
			x.reenter = fmt.Sprintf("handler %d started a second time", i)
			panic(chainSentinel{"reentered"})
		}
		x.tr = append(x.tr, fmt.Sprintf("enter%d", i))
		defer func() { x.tr = append(x.tr, fmt.Sprintf("exit%d", i)) }()
		for k, a := range h.Acts {
			switch a.Op {
			case "ev":
				x.tr = append(x.tr, fmt.Sprintf("ev%d.%d", i, k))
			case "write":
				data := []byte(fmt.Sprintf("w%d.%d;", i, k))
				switch a.Via {
				case "wrap":
					_, _ = flamego.NewResponseWriter(c.Request().Method, c.ResponseWriter()).Write(data)
				case "mount":
					sub := flamego.NewWithLogger(io.Discard)
					sub.NotFound(func(w http.ResponseWriter) { _, _ = w.Write(data) })
					sub.ServeHTTP(c.ResponseWriter(), c.Request().Request)
				default:
					_, _ = c.ResponseWriter().Write(data)
				}
			case "copy":
				_, _ = io.Copy(c.ResponseWriter(), plainReader{strings.NewReader(fmt.Sprintf("w%d.%d;", i, k))})
			case "header":
				c.ResponseWriter().WriteHeader(a.Code)
			case "next":
				x.tr = append(x.tr, fmt.Sprintf("nb%d.%d", i, k))
				c.Next()
				x.tr = append(x.tr, fmt.Sprintf("ne%d.%d", i, k))
			case "nextr":
				// a guard that contains whatever the rest of the chain throws and answers nothing itself
				x.tr = append(x.tr, fmt.Sprintf("nb%d.%d", i, k))
				func() {
					defer func() {
						if p := recover(); p != nil {
							if cs, ok := p.(chainSentinel); !ok || cs.why != "program" {
								panic(p)
							}
							x.tr = append(x.tr, fmt.Sprintf("recovered%d.%d", i, k))
						}
					}()
					c.Next()
				}()
				x.tr = append(x.tr, fmt.Sprintf("ne%d.%d", i, k))
			case "mapfw":
				// a buffering middleware that puts an independent writer into the request's injector
				c.MapTo(flamego.NewResponseWriter(c.Request().Method, httptest.NewRecorder()), (*http.ResponseWriter)(nil))
				x.tr = append(x.tr, fmt.Sprintf("mapfw%d.%d", i, k))
			case "rectxi":
				// the context is installed in place (all a func(http.ResponseWriter, *http.Request) handler can do)
				r := c.Request().Request
				ctx2, cancel2 := gocontext.WithCancel(r.Context())
				*r = *r.WithContext(ctx2)
				x.cancel, x.stale = cancel2, false
				x.tr = append(x.tr, fmt.Sprintf("rectx%d.%d", i, k))
			case "cancel":
				x.cancel()
				if x.stale {
					x.tr = append(x.tr, fmt.Sprintf("stale-cancel%d.%d", i, k))
					break
				}
				x.tr = append(x.tr, fmt.Sprintf("cancel%d.%d", i, k))
			case "detach":
				c.Request().Request = c.Request().WithContext(gocontext.WithoutCancel(c.Request().Context()))
				x.stale = true
				x.tr = append(x.tr, fmt.Sprintf("detach%d.%d", i, k))
			case "redirect":
				x.tr = append(x.tr, fmt.Sprintf("redirect%d.%d", i, k))
				c.Redirect(c03Target(a))
			case "expire":
				// a timeout middleware whose time is up: the request now carries a context whose deadline has passed
				// (it is done with DeadlineExceeded, nobody called a cancel function)
				ctx2, cancel2 := gocontext.WithDeadline(c.Request().Context(), time.Unix(1, 0))
				c.Request().Request = c.Request().WithContext(ctx2)
				x.cancel, x.stale = cancel2, false
				x.tr = append(x.tr, fmt.Sprintf("cancelx%d.%d", i, k))
			case "rectx":
				// the usual deadline-middleware pattern: the request now carries a derived context
				ctx2, cancel2 := gocontext.WithCancel(c.Request().Context())
				c.Request().Request = c.Request().WithContext(ctx2)
				x.cancel, x.stale = cancel2, false
				x.tr = append(x.tr, fmt.Sprintf("rectx%d.%d", i, k))
			case "panic":
				panic(chainSentinel{"program"})
			}
		}
	}
	switch h.Ret {
	case "empty":
		return func(c flamego.Context) string { body(c); return "" }
	case "string":
		return func(c flamego.Context) string { body(c); return fmt.Sprintf("r%d;", i) }
	case "bytes":
		return func(c flamego.Context) []byte { body(c); return []byte(fmt.Sprintf("b%d;", i)) }
	case "nilbytes":
		return func(c flamego.Context) []byte { body(c); return nil }
	case "intstring":
		return func(c flamego.Context) (int, string) { body(c); return 202, fmt.Sprintf("r%d;", i) }
	case "intempty":
		return func(c flamego.Context) (int, string) { body(c); return 203, "" }
	case "err":
		return func(c flamego.Context) error { body(c); return errors.New(fmt.Sprintf("e%d;", i)) }
	case "nilerr":
		return func(c flamego.Context) error { body(c); return nil }
	}
	if h.Reflect {
		return func(c flamego.Context, _ *http.Request) { body(c) } // not auto-wrapped: reflective invocation
	}
	if x.explicitFast {
		return flamego.ContextInvoker(body) // already a FastInvoker when it is handed over
	}
	return body // func(Context): wrapped into the ContextInvoker fast path
}

// ---- trace predicates that do not depend on the interpreter ---------------------

func chainTracePredicates(tr []string, chainLen int) string {
	wantNext := 0
	written, cancelled := false, false
	var stack []string
	prev := ""
	for _, e := range tr {
		switch {
		case strings.HasPrefix(e, "enter"):
			var i int
			fmt.Sscanf(e, "enter%d", &i)
			if i != wantNext {
				return fmt.Sprintf("handler %d started when handler %d was due (order / at-most-once / no skipping)", i, wantNext)
			}
			wantNext++
			auto := !strings.HasPrefix(prev, "nb")
			if auto && written {
				return fmt.Sprintf("handler %d was started by automatic advance although the response had been written", i)
			}
			if auto && cancelled {
				return fmt.Sprintf("handler %d was started by automatic advance although the request context was cancelled", i)
			}
			if !auto && cancelled {
				return fmt.Sprintf("handler %d was started by Next() although the request context was cancelled", i)
			}
			stack = append(stack, fmt.Sprintf("h%d", i))
		case strings.HasPrefix(e, "exit"):
			var i int
			fmt.Sscanf(e, "exit%d", &i)
			// a panic unwinding through a Next() call of this very handler skips its "ne" event
			if len(stack) > 0 && strings.HasPrefix(stack[len(stack)-1], fmt.Sprintf("n%d.", i)) {
				stack = stack[:len(stack)-1]
			}
			if len(stack) == 0 || stack[len(stack)-1] != fmt.Sprintf("h%d", i) {
				return fmt.Sprintf("handler %d finished outside proper nesting (stack %v)", i, stack)
			}
			stack = stack[:len(stack)-1]
		case strings.HasPrefix(e, "nb"):
			stack = append(stack, "n"+e[2:])
		case strings.HasPrefix(e, "ne"):
			if len(stack) == 0 || stack[len(stack)-1] != "n"+e[2:] {
				return fmt.Sprintf("Next() call %s returned outside proper nesting (stack %v)", e[2:], stack)
			}
			stack = stack[:len(stack)-1]
		case strings.HasPrefix(e, "spy:H"):
			if written {
				return "the underlying writer received a second status line"
			}
			written = true
		case strings.HasPrefix(e, "spy:W"):
			if !written {
				return "the underlying writer received body bytes before a status line"
			}
		case strings.HasPrefix(e, "cancel"):
			cancelled = true
		case strings.HasPrefix(e, "detach"):
			cancelled = false
		}
		prev = e
	}
	return ""
}

// chainVerdict compares an observed execution with the interpreter's prediction.
func chainVerdict(c *chainCase, obsTr []string, obsStatus int, obsBody string, obsPanic interface{}, reenter string) string {
	if reenter != "" {
		return reenter
	}
	chain := c.chain()
	sim := &chainSim{chain: chain, head: c.Method == "HEAD", get: c.Method == "" || c.Method == "GET"}
	var simPanic interface{}
	func() {
		defer func() { simPanic = recover() }()
		sim.run()
	}()
	if msg := chainTracePredicates(obsTr, len(chain)); msg != "" {
		return "trace predicate: " + msg
	}
	if (simPanic != nil) != (obsPanic != nil) {
		return fmt.Sprintf("panic propagation differs: predicted %v, observed %v", simPanic, obsPanic)
	}
	if obsPanic != nil {
		if _, ok := obsPanic.(chainSentinel); !ok {
			return fmt.Sprintf("unexpected panic value %v", obsPanic)
		}
	}
	a, b := strings.Join(obsTr, " "), strings.Join(sim.tr, " ")
	if a != b {
		return fmt.Sprintf("event sequence differs\n observed:  %s\n predicted: %s", a, b)
	}
	if obsStatus != sim.status || obsBody != sim.body.String() {
		return fmt.Sprintf("response differs: observed %d %q, predicted %d %q", obsStatus, obsBody, sim.status, sim.body.String())
	}
	return ""
}

func judgeChain(w *core.W, c *chainCase) {
	w.Eval()
	x := &chainExec{entered: map[int]int{}}
	ctx, cancel := gocontext.WithCancel(gocontext.Background())
	defer cancel()
	x.cancel = cancel
	f := flamego.NewWithLogger(io.Discard)
	if c.Wrapper {
		f.HandlerWrapper(func(h flamego.Handler) flamego.Handler {
			if fn, ok := h.(func(flamego.Context, *http.Request)); ok {
				return c03Fast(fn)
			}
			return h
		})
	}
	if c.Before != "" {
		f.Before(func(http.ResponseWriter, *http.Request) bool { return false })
		f.Before(func(rw http.ResponseWriter, _ *http.Request) bool {
			if c.Before == "decline-103" {
				rw.Header().Add("Link", "</app.css>; rel=preload")
				x.early = true
				rw.WriteHeader(http.StatusEarlyHints)
				x.early = false
				rw.Header().Del("Link")
			}
			return false
		})
		w.Count("before-handlers:" + c.Before)
	}
	idx := 0
	junk := func(id int) flamego.Handler {
		return func() { x.tr = append(x.tr, fmt.Sprintf("left-behind-handler-%d-ran", id)) }
	}
	x.explicitFast = c.Scribble
	scribble := func(hs []flamego.Handler) {
		if c.Scribble {
			for i := range hs {
				hs[i] = flamego.ContextInvoker(func(flamego.Context) { x.tr = append(x.tr, "handler-written-into-the-caller's-slice-later-ran") })
			}
		}
	}
	if c.Scribble {
		w.Count("caller-overwrites-its-slices")
	}
	if c.Cleared {
		f.Use(junk(700), junk(701))
		f.Handlers()
		w.Count("middleware-stack-cleared-first")
	}
	if c.ActFirst && c.Action != nil {
		f.Action(x.mk(len(c.chain())-1, c.Action))
		all := make([]flamego.Handler, 0, len(c.MW))
		for i := range c.MW {
			all = append(all, x.mk(idx, &c.MW[i]))
			idx++
		}
		f.Handlers(all...)
		scribble(all)
		w.Count("action-set-before-the-middleware")
	} else if c.SharedMW && len(c.MW) >= 2 {
		k := len(c.MW) - 1
		common := make([]flamego.Handler, 0, k+4)
		for i := 0; i < k; i++ {
			common = append(common, x.mk(idx, &c.MW[i]))
			idx++
		}
		f.Handlers(common...)
		last := []flamego.Handler{x.mk(idx, &c.MW[k])}
		f.Use(last...)
		scribble(last)
		idx++
		other := flamego.NewWithLogger(io.Discard)
		other.Handlers(common...)
		other.Use(junk(800))
		w.Count("middleware-from-a-shared-slice")
	} else {
		for i := range c.MW {
			one := []flamego.Handler{x.mk(idx, &c.MW[i])}
			f.Use(one...)
			scribble(one)
			idx++
		}
	}
	nfBase := idx
	if c.NotFound {
		var nfs []flamego.Handler
		for i := range c.NF {
			nfs = append(nfs, x.mk(nfBase+i, &c.NF[i]))
		}
		f.NotFound(nfs...)
		scribble(nfs)
		idx = nfBase + len(c.NF)
	}
	// the routed chain is always registered (for an unrouted request it must stay silent)
	ridx := idx
	if c.NotFound {
		ridx = 1000 // ids that must never show up
	}
	var register func(g int)
	path := ""
	register = func(g int) {
		if g == len(c.Groups) {
			var rhs []flamego.Handler
			for i := range c.RH {
				rhs = append(rhs, x.mk(ridx, &c.RH[i]))
				ridx++
			}
			if c.Probe > 0 && c.Probe < len(rhs) {
				// a sibling route that is given a prefix of the same slice (same backing array, same first handler):
				// each route still runs its own chain
				f.Route(c.method(), "/probe", rhs[:c.Probe])
			}
			f.Route(c.method(), "/x", rhs)
			scribble(rhs)
			return
		}
		var ghs []flamego.Handler
		for i := range c.Groups[g] {
			ghs = append(ghs, x.mk(ridx, &c.Groups[g][i]))
			ridx++
		}
		path += fmt.Sprintf("/g%d", g)
		f.Group(fmt.Sprintf("/g%d", g), func() { register(g + 1) }, ghs...)
		scribble(ghs)
	}
	register(0)
	if !c.NotFound {
		idx = ridx
	}
	if c.Action != nil && !c.ActFirst {
		f.Action(x.mk(idx, c.Action))
	}
	if c.BadSetup {
		failed := 0
		for _, call := range []func(){
			func() { f.Use(junk(900), 42, junk(901)) },
			func() {
				if c.NotFound {
					f.NotFound(junk(902), "oops")
				} else {
					f.Get("/x/never", junk(903), 42)
				}
			},
		} {
			func() {
				defer func() {
					if recover() != nil {
						failed++
					}
				}()
				call()
			}()
		}
		if failed != 2 {
			w.Count("unjudged:non-function-handler-accepted")
			return
		}
		w.Count("failed-setup-calls-before-serving")
	}
	target := path + "/x"
	if c.NotFound {
		target = "/nowhere"
	}
	if c.Probe > 0 && c.Probe < len(c.RH) && !c.NotFound {
		// the sibling is requested first; whatever serving it leaves behind must not influence the chain of /x
		pctx, pcancel := gocontext.WithCancel(gocontext.Background())
		x.cancel = pcancel
		func() {
			defer func() { _ = recover() }()
			ptr := []string{}
			f.ServeHTTP(&chainSpy{hdr: http.Header{}, tr: &ptr, early: &x.early}, (&http.Request{Method: c.method(), URL: &url.URL{Path: path + "/probe"}, Header: http.Header{}}).WithContext(pctx))
		}()
		pcancel()
		x.tr, x.entered, x.reenter, x.cancel, x.stale = nil, map[int]int{}, "", cancel, false
		w.Count("sibling-route-with-shared-handler-prefix")
	}
	spy := &chainSpy{hdr: http.Header{}, tr: &x.tr, early: &x.early}
	req := (&http.Request{Method: c.method(), URL: &url.URL{Path: target}, Header: http.Header{}, RequestURI: target}).WithContext(ctx)
	var pan interface{}
	func() {
		defer func() { pan = recover() }()
		f.ServeHTTP(spy, req)
	}()
	if msg := chainVerdict(c, x.tr, spy.status, spy.body.String(), pan, x.reenter); msg != "" {
		w.Violate("chain", c, msg)
		return
	}
	// coverage
	chain := c.chain()
	nexts, maxNext, writers, others := 0, 0, 0, 0
	for _, h := range chain {
		if h == nil {
			continue
		}
		n := 0
		eff := false
		for _, a := range h.Acts {
			switch a.Op {
			case "next", "nextr":
				n++
			case "write", "header", "cancel", "expire", "panic":
				eff = true
			}
		}
		for _, a := range h.Acts {
			if a.Op == "write" && a.Via != "" {
				w.Count("write-via:" + a.Via)
			}
			if a.Op == "nextr" || a.Op == "mapfw" || a.Op == "rectxi" {
				w.Count("act:" + a.Op)
			}
			if a.Op == "copy" {
				eff = true
			}
		}
		if h.Ret == "string" || h.Ret == "intstring" || h.Ret == "err" || h.Ret == "intempty" || h.Ret == "bytes" {
			eff = true
		}
		nexts += n
		if n > maxNext {
			maxNext = n
		}
		if eff {
			writers++
		}
		if n > 0 && !eff {
			others++
		}
	}
	nilAction := c.Action == nil && len(x.entered) == len(chain)-1 && pan == nil && spy.status == 0
	if nilAction {
		w.Count("nil-action-reached")
	}
	if c.NotFound {
		w.Count("not-found-chain")
	}
	if c.Method == "HEAD" && spy.status != 0 {
		w.Count("head-request-written")
	}
	if pan != nil {
		w.Count("panic-unwound")
	}
	if maxNext >= 2 {
		w.Count("next-twice-in-one-handler")
	}
	if len(c.chain()) >= 65 {
		w.Count("chain>=64-handlers")
	}
	sawRectx := false
	for _, e := range x.tr {
		if strings.HasPrefix(e, "rectx") {
			sawRectx = true
		}
		if strings.HasPrefix(e, "cancelx") {
			w.Count("deadline-expired-executed")
		}
		if strings.HasPrefix(e, "cancel") {
			w.Count("cancel-executed")
			if sawRectx {
				w.Count("cancel-of-replaced-request-context")
			}
			break
		}
	}
	if (nexts >= 1 && writers >= 1 && (others >= 1 || writers >= 2)) || maxNext >= 2 || nilAction {
		b, _ := json.Marshal(c)
		w.NonTrivial(core.Hash64(string(b)), func() interface{} {
			return map[string]interface{}{"program": c, "trace": x.tr, "status": spy.status, "body": spy.body.String()}
		})
	}
	w.Sample(func() interface{} {
		return map[string]interface{}{"program": c, "trace": x.tr, "status": spy.status}
	})
}

func runC03(r *core.Run) {
	r.Rule("random handler programs: 0-3 application middleware, 0-3 nested groups with 0-2 handlers each, 1-4 route handlers, optional action, 1/6 of requests unrouted (middleware + not-found handlers + action); every handler is a random action list (<=5) over {event, Write (directly, through a NewResponseWriter layered on the context's writer, or by another Flame instance mounted as a handler), WriteHeader, Next, Next() inside a guard that recovers what the rest of the chain throws and answers nothing, put an independent writer into the request's injector, cancel request context, give the request a context whose deadline has passed, replace the request context by a derived one, detach the request from the incoming context (context.WithoutCancel) so that cancelling what it left behind means nothing, Context.Redirect, panic} plus a return shape {none, \"\", string, []byte, nil []byte, (int,string), (int,\"\"), error, nil error}, invoked through the fast path or reflectively. Oracle: per-request event log (handler enter/exit, Next begin/end, every call reaching a spy writer) must equal the prediction of a statement-level interpreter, plus interpreter-independent trace predicates (consecutive start order, nesting, no automatic advance after write/cancel, one status before body). non-trivial = distinct programs with >=1 Next and an effect (write/cancel/panic) in a different handler, or >=2 Next in one handler, or the nil action reached")
	c03Canaries(r)
	n := r.N(60000, 6000000)
	r.Parallel("prog", n, func(w *core.W, rng *rand.Rand, i int) {
		c := genChainCase(rng)
		w.Begin("chain", c)
		judgeChain(w, c)
	})
	r.Gate("distinct_nontrivial", r.NonTrivialCount(), 2000)
	for _, k := range []string{"nil-action-reached", "not-found-chain", "panic-unwound", "next-twice-in-one-handler", "cancel-executed", "deadline-expired-executed", "write-via:wrap", "write-via:mount", "middleware-from-a-shared-slice", "failed-setup-calls-before-serving", "caller-overwrites-its-slices", "middleware-stack-cleared-first", "act:nextr", "act:mapfw", "act:rectxi", "action-set-before-the-middleware", "chain>=64-handlers", "cancel-of-replaced-request-context", "head-request-written", "sibling-route-with-shared-handler-prefix"} {
		r.GateCounter(k, 50)
	}
}

func c03Canaries(r *core.Run) {
	// program: h0{next} h1{write} h2{}
	c := &chainCase{RH: []hspec{{Acts: []act{{Op: "next"}}}, {Acts: []act{{Op: "write"}}}, {}}}
	good := []string{"enter0", "nb0.0", "enter1", "spy:H200", "spy:Ww1.0;", "exit1", "ne0.0", "exit0"}
	r.Canary("faithful trace passes", chainVerdict(c, good, 200, "w1.0;", nil, "") == "")
	r.Canary("advance after write", chainVerdict(c, append(append([]string{}, good[:6]...), "enter2", "exit2", "ne0.0", "exit0"), 200, "w1.0;", nil, "") != "")
	r.Canary("skipped handler", chainVerdict(c, []string{"enter0", "nb0.0", "enter2", "exit2", "ne0.0", "exit0"}, 0, "", nil, "") != "")
	r.Canary("handler twice", chainVerdict(c, []string{"enter0", "nb0.0", "enter1", "spy:H200", "spy:Ww1.0;", "exit1", "ne0.0", "exit0", "enter1", "exit1"}, 200, "w1.0;", nil, "") != "")
	r.Canary("broken nesting", chainVerdict(c, []string{"enter0", "nb0.0", "enter1", "spy:H200", "spy:Ww1.0;", "ne0.0", "exit1", "exit0"}, 200, "w1.0;", nil, "") != "")
	r.Canary("wrong status", chainVerdict(c, good, 201, "w1.0;", nil, "") != "")
	r.Canary("body before status", chainTracePredicates([]string{"enter0", "spy:Wx", "exit0"}, 2) != "")
	r.Canary("second Next skips a handler (D9 shape)", func() bool {
		c2 := &chainCase{RH: []hspec{{Acts: []act{{Op: "next"}, {Op: "next"}}}, {}, {}, {}}}
		return chainVerdict(c2, []string{"enter0", "nb0.0", "enter1", "exit1", "ne0.0", "nb0.1", "enter3", "exit3", "ne0.1", "exit0"}, 0, "", nil, "") != ""
	}())
}
