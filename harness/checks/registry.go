// Package checks holds one runtime monitor per property C01..C18.
package checks

import (
	"encoding/json"

	"github.com/flamego/flamego/verifharness/core"
)

// Check is a property's monitor.
type Check struct {
	ID string
	// Run drives the workloads of the tier and judges every case.
	Run func(r *core.Run)
	// Replay re-executes one recorded case of the given kind and judges it.
	Replay func(w *core.W, kind string, raw json.RawMessage)
}

// Registry maps property ids to monitors.
var Registry = map[string]*Check{}

func register(c *Check) { Registry[c.ID] = c }

// RunPinned runs the pinned witnesses of known findings first (DESIGN §2.5):
// open and failing → KNOWN-FINDING line; fixed and failing → ordinary VIOLATION.
func RunPinned(r *core.Run, c *Check) {
	for _, f := range r.Findings() {
		if f.Kind == "" || len(f.Witness) == 0 {
			continue
		}
		before := r.Violations()
		if f.Status == "open" {
			// run in a sub-run that does not count as violation
			sub := core.NewRun(r.Prop, r.Tier)
			sub.SetReplaying()
			sub.Quiet = true
			w := sub.Serial()
			c.Replay(w, f.Kind, f.Witness)
			if sub.Violations() > 0 {
				r.ReportOpenFinding(f)
			} else {
				r.Note("open finding " + f.ID + " no longer reproduces on this tree")
			}
			continue
		}
		w := r.Serial()
		c.Replay(w, f.Kind, f.Witness)
		w.CountN("pinned-witnesses-run", 1)
		w.Merge()
		_ = before
	}
}
