package rmodel

import (
	"fmt"
	"net/url"
	"regexp"
	"regexp/syntax"
	"strconv"
	"strings"
)

// Segment kinds with their documented priority rank.
const (
	KStatic      = 1
	KRegex       = 2
	KPlaceholder = 3
	KAll         = 4
	KOdd         = 9 // none of the four kinds (e.g. `a{x: **}`, `{x: lit}`): not judged
)

// Seg is a classified segment of a route form.
type Seg struct {
	Kind    int
	Text    string // canonical text incl. "/" and "?"
	Lit     string
	Binds   []string
	Groups  []int // submatch index of each bind in Re
	Exprs   []string
	Re      *regexp.Regexp
	Capture int
	Src     *Segment
}

// RejectCategory names the rule of the property statement that refuses a route.
type RejectCategory string

const (
	RejNone          RejectCategory = ""
	RejOptional      RejectCategory = "non-final optional"
	RejEmptyInner    RejectCategory = "empty inner segment"
	RejDupBind       RejectCategory = "bind reused"
	RejTwoAll        RejectCategory = "two match-alls before the end"
	RejAllPosition   RejectCategory = "different match-all at an occupied position"
	RejDuplicate     RejectCategory = "duplicate route"
	RejDupShort      RejectCategory = "duplicate through optional short form"
	RejBadExpr       RejectCategory = "expression does not compile"
	RejOdd           RejectCategory = "segment is none of the four kinds (not judged)"
	RejEmptyRoute    RejectCategory = "empty route"
	RejOutsideSyntax RejectCategory = "outside the grammar"
)

// Classify determines the kind of a segment. Odd segments get KOdd.
func Classify(s *Segment) (*Seg, RejectCategory) {
	// Identity of a segment: its canonical text without the optional mark – "/a/?b"
	// and "/a/b" admit the very same path, so they are the same route form.
	out := &Seg{Text: (&Segment{Elems: s.Elems}).Canon(), Src: s}
	es := s.Elems
	if len(es) == 0 {
		out.Kind = KStatic
		return out, RejNone
	}
	if len(es) == 1 {
		e := es[0]
		switch {
		case e.IsLit():
			out.Kind, out.Lit = KStatic, e.Lit
			return out, RejNone
		case e.IsBind():
			if e.Bind == "**" {
				out.Kind, out.Binds = KAll, []string{"**"}
				return out, RejNone
			}
			out.Kind, out.Binds = KPlaceholder, []string{e.Bind}
			return out, RejNone
		}
	}
	// A parameter list whose first value is the literal `**` is a match-all; it
	// is one of the four kinds only when it is the whole segment and carries at
	// most a well-formed capture limit.
	if es[0].IsParams() && !es[0].Params[0].IsRegex && es[0].Params[0].Value == "**" {
		ps := es[0].Params
		out.Kind, out.Binds = KAll, []string{ps[0].Name}
		proper := len(es) == 1 && len(ps) <= 2
		if len(ps) == 2 {
			// a capture limit is a decimal number; leading zeros are still decimal ("08" is eight), 0 means no limit
			n, err := strconv.Atoi(ps[1].Value)
			// (an explicit sign is still a decimal number; the implementation documents "non-positive means unlimited")
			digits := strings.TrimLeft(ps[1].Value, "+-")
			allDigits := digits != "" && len(ps[1].Value)-len(digits) <= 1
			for _, ch := range digits {
				if ch < '0' || ch > '9' {
					allDigits = false
				}
			}
			if n < 0 {
				n = 0
			}
			if ps[1].Name != "capture" || ps[1].IsRegex || err != nil || !allDigits {
				proper = false
			} else {
				out.Capture = n
			}
		}
		if !proper {
			out.Kind = KOdd
			return out, RejOdd
		}
		return out, RejNone
	}
	out.Kind = KRegex
	var sb strings.Builder
	sb.WriteString("^")
	g := 0
	for _, e := range es {
		switch {
		case e.IsLit():
			sb.WriteString(regexp.QuoteMeta(e.Lit))
		case e.IsBind():
			if e.Bind == "**" {
				out.Kind = KOdd
				return out, RejOdd
			}
			g++
			out.Binds = append(out.Binds, e.Bind)
			out.Groups = append(out.Groups, g)
			out.Exprs = append(out.Exprs, "")
			sb.WriteString("(.+)")
		default:
			for _, p := range e.Params {
				if !p.IsRegex {
					out.Kind = KOdd
					return out, RejOdd
				}
				// Each expression stands on its own: it is parsed separately and embedded through its syntax tree, so
				// that nothing in it (an unterminated \Q, an inline flag) can reach across its own parentheses.
				sub, err := syntax.Parse(p.Value, syntax.Perl)
				if err != nil {
					return out, RejBadExpr
				}
				g++
				out.Binds = append(out.Binds, p.Name)
				out.Groups = append(out.Groups, g)
				out.Exprs = append(out.Exprs, p.Value)
				g += sub.MaxCap()
				sb.WriteString("(" + sub.String() + ")")
			}
		}
	}
	sb.WriteString("$")
	re, err := regexp.Compile(sb.String())
	if err != nil {
		return out, RejBadExpr
	}
	out.Re = re
	return out, RejNone
}

// Form is one way a route can be reached: the long form, and for a route with
// an optional last segment also the short form without it.
type Form struct {
	RouteIdx int
	Route    string // canonical text of the whole route
	Segs     []*Seg
	Short    bool
	leafOrd  int
	R        *Route
}

// Model is the set of accepted routes of one method.
type Model struct {
	Forms     []*Form
	Routes    map[int]*Route
	nodeOrder map[string]int
	n         int
}

// New returns an empty model.
func New() *Model { return &Model{nodeOrder: map[string]int{}, Routes: map[int]*Route{}} }

func key(segs []*Seg, k int) string {
	var sb strings.Builder
	for i := 0; i < k; i++ {
		sb.WriteString(segs[i].Text)
		sb.WriteByte(0)
	}
	return sb.String()
}

// Check decides, without changing the model, whether the route is accepted
// after the routes accepted so far, and by which rule it is refused otherwise.
// judged=false means the route contains a segment outside the four kinds, for
// which the property makes no accept/reject claim.
func (m *Model) Check(idx int, r *Route) (forms []*Form, cat RejectCategory, judged bool) {
	if r == nil || len(r.Segs) == 0 {
		return nil, RejEmptyRoute, true
	}
	n := len(r.Segs)
	segs := make([]*Seg, n)
	var firstRej RejectCategory
	odd := false
	for i := range r.Segs {
		sg, rej := Classify(&r.Segs[i])
		segs[i] = sg
		if rej == RejOdd {
			odd = true
		} else if rej != RejNone && firstRej == RejNone {
			firstRej = rej
		}
	}
	if odd {
		return nil, RejOdd, false
	}
	for i, s := range segs {
		if s.Src.Optional && i != n-1 {
			return nil, RejOptional, true
		}
		if i != n-1 && len(s.Src.Elems) == 0 {
			return nil, RejEmptyInner, true
		}
	}
	if firstRej != RejNone {
		return nil, firstRej, true
	}
	seen := map[string]bool{}
	alls := 0
	for i, s := range segs {
		for _, b := range s.Binds {
			if seen[b] {
				return nil, RejDupBind, true
			}
			seen[b] = true
		}
		if s.Kind == KAll && i != n-1 {
			alls++
		}
	}
	if alls > 1 {
		return nil, RejTwoAll, true
	}
	canon := r.Canon()
	if segs[n-1].Src.Optional {
		var short []*Seg
		if n == 1 {
			short = []*Seg{{Kind: KStatic, Text: "/", Src: &Segment{}}}
		} else {
			short = segs[:n-1]
		}
		forms = append(forms, &Form{RouteIdx: idx, Route: canon, Segs: short, Short: true, leafOrd: idx * 2, R: r})
	}
	forms = append(forms, &Form{RouteIdx: idx, Route: canon, Segs: segs, leafOrd: idx*2 + 1, R: r})
	if len(forms) == 2 && key(forms[0].Segs, len(forms[0].Segs)) == key(forms[1].Segs, len(forms[1].Segs)) {
		// "/?": the optional segment is empty, so the long and the short form are
		// the same path "/". That is one route reachable in one way, not a conflict.
		forms = forms[1:]
	}

	// The short form's last segment becomes a leaf; a match-all in the middle of
	// the long form is then a final match-all of the short form (its own role).
	for _, f := range forms {
		fk := key(f.Segs, len(f.Segs))
		for _, g := range m.Forms {
			if key(g.Segs, len(g.Segs)) == fk {
				if f.Short || g.Short {
					return nil, RejDupShort, true
				}
				return nil, RejDuplicate, true
			}
		}
		for k := 0; k < len(f.Segs); k++ {
			if f.Segs[k].Kind != KAll {
				continue
			}
			isLeaf := k == len(f.Segs)-1
			pk := key(f.Segs, k)
			for _, g := range m.Forms {
				if len(g.Segs) <= k || g.Segs[k].Kind != KAll || key(g.Segs, k) != pk {
					continue
				}
				if (k == len(g.Segs)-1) == isLeaf && g.Segs[k].Text != f.Segs[k].Text {
					return nil, RejAllPosition, true
				}
			}
		}
	}
	if len(forms) == 2 && key(forms[0].Segs, len(forms[0].Segs)) == key(forms[1].Segs, len(forms[1].Segs)) {
		return nil, RejDupShort, true
	}
	return forms, RejNone, true
}

// Add checks and, if accepted, records the route.
func (m *Model) Add(idx int, r *Route) (RejectCategory, bool) {
	forms, cat, judged := m.Check(idx, r)
	if cat != RejNone {
		return cat, judged
	}
	m.Commit(idx, r, forms)
	return RejNone, true
}

// Commit records forms returned by Check.
func (m *Model) Commit(idx int, r *Route, forms []*Form) {
	m.Routes[idx] = r
	for _, f := range forms {
		for k := 1; k < len(f.Segs); k++ {
			kk := key(f.Segs, k)
			if _, ok := m.nodeOrder[kk]; !ok {
				m.n++
				m.nodeOrder[kk] = m.n
			}
		}
		m.Forms = append(m.Forms, f)
	}
}

// Deriv is one derivation of a path by one form.
type Deriv struct {
	Form  *Form
	Key   [][4]int
	Raw   map[string]string // bind -> captured raw substring
	Spans []int             // segments consumed by each route segment
}

func less(a, b [][4]int) bool {
	for i := 0; i < len(a) && i < len(b); i++ {
		for j := 0; j < 4; j++ {
			if a[i][j] != b[i][j] {
				return a[i][j] < b[i][j]
			}
		}
	}
	return len(a) < len(b)
}

func (s *Seg) matchOne(p string, raw map[string]string) bool {
	switch s.Kind {
	case KStatic:
		return s.Lit == p
	case KPlaceholder:
		raw[s.Binds[0]] = p
		return true
	case KRegex:
		sm := s.Re.FindStringSubmatch(p)
		if sm == nil {
			return false
		}
		for i, b := range s.Binds {
			raw[b] = sm[s.Groups[i]]
		}
		return true
	}
	panic(fmt.Sprintf("matchOne on kind %d", s.Kind))
}

// SplitPath splits a request path the way the property states it: leading
// slashes ignored, every further "/" separates segments, a trailing slash
// yields an extra empty segment.
func SplitPath(path string) []string {
	return strings.Split(strings.TrimLeft(path, "/"), "/")
}

// Derivations enumerates every derivation of path by every form whose route
// passes eligible (nil = all eligible).
func (m *Model) Derivations(path string, eligible func(routeIdx int) bool) []*Deriv {
	ps := SplitPath(path)
	M := len(ps)
	var all []*Deriv
	for _, f := range m.Forms {
		if eligible != nil && !eligible(f.RouteIdx) {
			continue
		}
		f := f
		n := len(f.Segs)
		var rec func(k, j int, key_ [][4]int, raw map[string]string, spans []int)
		rec = func(k, j int, key_ [][4]int, raw map[string]string, spans []int) {
			s := f.Segs[k]
			cp := func() map[string]string {
				c := make(map[string]string, len(raw)+1)
				for a, b := range raw {
					c[a] = b
				}
				return c
			}
			if k == n-1 {
				if s.Kind == KAll {
					cnt := M - j
					if cnt < 1 || (s.Capture > 0 && cnt > s.Capture) {
						return
					}
					r := cp()
					r[s.Binds[0]] = strings.Join(ps[j:], "/")
					cls := 0
					if cnt > 1 {
						cls = 1
					}
					kk := append(append([][4]int{}, key_...), [4]int{cls, KAll, f.leafOrd, 0})
					all = append(all, &Deriv{Form: f, Key: kk, Raw: r, Spans: append(append([]int{}, spans...), cnt)})
					return
				}
				if j != M-1 {
					return
				}
				r := cp()
				if !s.matchOne(ps[j], r) {
					return
				}
				kk := append(append([][4]int{}, key_...), [4]int{0, s.Kind, f.leafOrd, 0})
				all = append(all, &Deriv{Form: f, Key: kk, Raw: r, Spans: append(append([]int{}, spans...), 1)})
				return
			}
			if j >= M-1 {
				return
			}
			ord := m.nodeOrder[key(f.Segs, k+1)]
			if s.Kind == KAll {
				for c := 1; j+c <= M-1 && (s.Capture <= 0 || c <= s.Capture); c++ {
					r := cp()
					r[s.Binds[0]] = strings.Join(ps[j:j+c], "/")
					rec(k+1, j+c, append(append([][4]int{}, key_...), [4]int{0, KAll, ord, c}), r, append(append([]int{}, spans...), c))
				}
				return
			}
			r := cp()
			if !s.matchOne(ps[j], r) {
				return
			}
			rec(k+1, j+1, append(append([][4]int{}, key_...), [4]int{0, s.Kind, ord, 0}), r, append(append([]int{}, spans...), 1))
		}
		rec(0, 0, nil, map[string]string{}, nil)
	}
	return all
}

// Dispatch returns the winning derivation (nil = not found) and all derivations.
func (m *Model) Dispatch(path string, eligible func(routeIdx int) bool) (*Deriv, []*Deriv) {
	all := m.Derivations(path, eligible)
	if len(all) == 0 {
		return nil, nil
	}
	best := all[0]
	for _, d := range all[1:] {
		if less(d.Key, best.Key) {
			best = d
		}
	}
	return best, all
}

// Params decodes the captured substrings once (raw if undecodable).
func (d *Deriv) Params() map[string]string {
	out := make(map[string]string, len(d.Raw))
	for k, v := range d.Raw {
		if u, err := url.PathUnescape(v); err == nil {
			out[k] = u
		} else {
			out[k] = v
		}
	}
	return out
}

// DecidedBy names the clause that separated the winner from the runner-up
// (first differing key component), for coverage counters.
func DecidedBy(best *Deriv, all []*Deriv) string {
	var second *Deriv
	for _, d := range all {
		if d == best {
			continue
		}
		if second == nil || less(d.Key, second.Key) {
			second = d
		}
	}
	if second == nil {
		return "single"
	}
	a, b := best.Key, second.Key
	for i := 0; i < len(a) && i < len(b); i++ {
		for j := 0; j < 4; j++ {
			if a[i][j] != b[i][j] {
				return [...]string{"final-matchall-deferred", "rank", "registration-order", "fewest-captured"}[j]
			}
		}
	}
	return "length"
}

// NeedsBacktrack reports whether a first-choice-only descent (always follow
// the best child, never return) would have missed the winner: some derivation
// prefix that is not a prefix of any complete derivation sorts before it.
// It is approximated by: there is a segment position at which a higher-ranked
// sibling admits the path segment but no complete derivation goes through it.
func (m *Model) NeedsBacktrack(path string, best *Deriv, eligible func(int) bool) bool {
	ps := SplitPath(path)
	M := len(ps)
	for _, f := range m.Forms {
		if eligible != nil && !eligible(f.RouteIdx) {
			continue
		}
		// walk f along the path greedily (span 1 for match-all) and see whether a
		// proper prefix of f matches with a key smaller than the winner's but f fails later
		var key_ [][4]int
		j := 0
		ok := true
		for k := 0; k < len(f.Segs)-1 && j < M-1; k++ {
			s := f.Segs[k]
			ord := m.nodeOrder[key(f.Segs, k+1)]
			raw := map[string]string{}
			if s.Kind == KAll {
				key_ = append(key_, [4]int{0, KAll, ord, 1})
			} else {
				if !s.matchOne(ps[j], raw) {
					ok = false
					break
				}
				key_ = append(key_, [4]int{0, s.Kind, ord, 0})
			}
			j++
			// is this partial key strictly smaller than the winner's at this depth,
			// while the winner does not share it?
			if len(best.Key) > len(key_)-1 {
				kk := len(key_) - 1
				if key_[kk] != best.Key[kk] && less(key_, best.Key[:len(key_)]) {
					same := true
					for q := 0; q < kk; q++ {
						if key_[q] != best.Key[q] {
							same = false
						}
					}
					if same {
						return true
					}
				}
			}
		}
		_ = ok
	}
	return false
}
