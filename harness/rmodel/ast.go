// Package rmodel is the independent, declarative reference model of flamego's
// route language: an AST that generators build directly (so structure is known
// without trusting the real parser), a reference recogniser/parser for route
// text, and a dispatch model that enumerates all derivations of a path and
// picks the lexicographically smallest priority key (no tree, no early exit).
package rmodel

import (
	"strings"
)

// Param is one `name: value` pair inside `{…}`.
type Param struct {
	Name    string `json:"name"`
	Value   string `json:"value"`           // literal identifier or regex text (without the slashes)
	IsRegex bool   `json:"regex,omitempty"` // value was written as /…/
	Blanks  int    `json:"-"`               // blanks after ':' as written (rendering only)
	Lead    int    `json:"-"`               // blanks after the preceding ',' as written
}

// Elem is one segment element.
type Elem struct {
	Lit    string  `json:"lit,omitempty"`    // identifier literal
	Bind   string  `json:"bind,omitempty"`   // {bind}
	Params []Param `json:"params,omitempty"` // {a: …, b: …}
}

// IsLit / IsBind / IsParams tell the alternatives apart.
func (e Elem) IsLit() bool    { return e.Bind == "" && len(e.Params) == 0 }
func (e Elem) IsBind() bool   { return e.Bind != "" }
func (e Elem) IsParams() bool { return len(e.Params) > 0 }

// Segment is "/" "?"? element*.
type Segment struct {
	Optional bool   `json:"optional,omitempty"`
	Elems    []Elem `json:"elems,omitempty"`
}

// Route is segment+.
type Route struct {
	Segs []Segment `json:"segs"`
}

// Canon renders the canonical text: exactly one blank after ':' and ','.
func (r *Route) Canon() string {
	var sb strings.Builder
	for i := range r.Segs {
		sb.WriteString(r.Segs[i].Canon())
	}
	return sb.String()
}

// Canon renders one segment canonically, including its leading slash.
func (s *Segment) Canon() string {
	var sb strings.Builder
	sb.WriteByte('/')
	if s.Optional {
		sb.WriteByte('?')
	}
	for _, e := range s.Elems {
		switch {
		case e.IsParams():
			sb.WriteByte('{')
			for i, p := range e.Params {
				if i > 0 {
					sb.WriteString(", ")
				}
				sb.WriteString(p.Name)
				sb.WriteString(": ")
				if p.IsRegex {
					sb.WriteByte('/')
					sb.WriteString(p.Value)
					sb.WriteByte('/')
				} else {
					sb.WriteString(p.Value)
				}
			}
			sb.WriteByte('}')
		case e.IsBind():
			sb.WriteByte('{')
			sb.WriteString(e.Bind)
			sb.WriteByte('}')
		default:
			sb.WriteString(e.Lit)
		}
	}
	return sb.String()
}

// Render renders the route as written, honouring Blanks/Lead of each
// parameter (used to produce non-canonical but grammatical spellings).
func (r *Route) Render() string {
	var sb strings.Builder
	for _, s := range r.Segs {
		sb.WriteByte('/')
		if s.Optional {
			sb.WriteByte('?')
		}
		for _, e := range s.Elems {
			switch {
			case e.IsParams():
				sb.WriteByte('{')
				for i, p := range e.Params {
					if i > 0 {
						sb.WriteByte(',')
						sb.WriteString(strings.Repeat(" ", p.Lead))
					}
					sb.WriteString(p.Name)
					sb.WriteByte(':')
					sb.WriteString(strings.Repeat(" ", p.Blanks))
					if p.IsRegex {
						sb.WriteByte('/')
						sb.WriteString(p.Value)
						sb.WriteByte('/')
					} else {
						sb.WriteString(p.Value)
					}
				}
				sb.WriteByte('}')
			case e.IsBind():
				sb.WriteByte('{')
				sb.WriteString(e.Bind)
				sb.WriteByte('}')
			default:
				sb.WriteString(e.Lit)
			}
		}
	}
	return sb.String()
}

// Equal compares structure (ignoring the spelling of blanks).
func (r *Route) Equal(o *Route) bool {
	if len(r.Segs) != len(o.Segs) {
		return false
	}
	for i := range r.Segs {
		a, b := r.Segs[i], o.Segs[i]
		if a.Optional != b.Optional || len(a.Elems) != len(b.Elems) {
			return false
		}
		for j := range a.Elems {
			x, y := a.Elems[j], b.Elems[j]
			if x.Lit != y.Lit || x.Bind != y.Bind || len(x.Params) != len(y.Params) {
				return false
			}
			for k := range x.Params {
				p, q := x.Params[k], y.Params[k]
				if p.Name != q.Name || p.Value != q.Value || p.IsRegex != q.IsRegex {
					return false
				}
			}
		}
	}
	return true
}
