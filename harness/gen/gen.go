// Package gen builds routes as derivations of the route grammar (so their
// structure is known without the real parser), route sets whose siblings
// collide, and route-directed hostile request paths.
package gen

import (
	"math/rand"
	"strings"
	"unicode/utf8"

	"github.com/flamego/flamego/verifharness/rmodel"
)

// ReSpec is a catalogue expression with sample strings.
type ReSpec struct {
	Expr string
	Pos  []string
	Neg  []string
}

// Catalogue of user expressions: alternations, nested groups, empty-matching,
// quantifier braces, flags, escapes. Every text is inside the regex terminal
// class of the route grammar.
var Catalogue = []ReSpec{
	{`[0-9]+`, []string{"1", "42", "007"}, []string{"a", "", "1a", "٣", "4５", "１２"}},
	{`[a-c]{2,3}`, []string{"ab", "abc", "cc"}, []string{"a", "abcd", "xy"}},
	{`a|b`, []string{"a", "b"}, []string{"c", "ab", ""}},
	{`(a|b)+`, []string{"a", "ab", "bab"}, []string{"", "c", "abc"}},
	{`(\.(patch|diff))?`, []string{"", ".patch", ".diff"}, []string{"patch", ".pat"}},
	{`\d+`, []string{"5", "123"}, []string{"x", "", "٣", "1２", "৭"}},
	{`[\w]+`, []string{"a_1", "Z", "ab"}, []string{"-", "", "é", "aé", "ａ"}},
	{`[0-9]*`, []string{"", "12"}, []string{"a"}},
	{`.*x`, []string{"x", "abx", "%41x"}, []string{"xa", "", "\nx", "a\nx"}},
	{`(x|y)+`, []string{"xy", "x", "yyx"}, []string{"z", ""}},
	{`v[0-9]`, []string{"v1", "v9"}, []string{"v", "v12", "v１", "v٣"}},
	{`[a-z]+`, []string{"abc", "q", "ab"}, []string{"1", "A", "", "ａ", "aｂ", "ſ"}},
	{`(ab)*c`, []string{"c", "abc", "ababc"}, []string{"ab", ""}},
	{`[A-Z][a-z]*`, []string{"A", "Hello"}, []string{"hello", ""}},
	{`a.c`, []string{"abc", "a.c", "a%c"}, []string{"ac", "abbc", "a\nc"}},
	{`\w{2}`, []string{"ab", "a1"}, []string{"a", "abc", "é", "a１"}},
	{`(a(b(c)))`, []string{"abc"}, []string{"ab", ""}},
	{`.+`, []string{"a", "ab", "%41", "a.b", "1"}, []string{"", "\n", "a\nb"}},
	{`(?i)ab`, []string{"ab", "AB", "Ab"}, []string{"a", "abc", "ａｂ"}},
	{`a{2}`, []string{"aa"}, []string{"a", "aaa"}},
	{`x?`, []string{"", "x"}, []string{"xx", "y"}},
	{`[0-9]+\.[0-9]+`, []string{"1.5", "10.25"}, []string{"1", "1x5"}},
	{`a|`, []string{"", "a"}, []string{"b"}},
	{`[a-f0-9]{3,5}`, []string{"abc", "12f", "abcde"}, []string{"ab", "xyz"}},
	{`(b|bc)(c|d)`, []string{"bc", "bcd", "bcc", "bd"}, []string{"b", "bcdd"}},
	// user groups under every regexp operator that can carry a sub-expression
	{`([a-z][0-9]){2}`, []string{"a1b2", "x9y0"}, []string{"a1", "a1b", "a1b2c3"}},
	{`(ab){1,2}`, []string{"ab", "abab"}, []string{"", "ababab", "a"}},
	{`((a|b)c){2,}`, []string{"acbc", "acacbc"}, []string{"ac", "ab"}},
	{`(x(y)?){2}`, []string{"xx", "xyx", "xyxy"}, []string{"x", "xyy"}},
	{`(a)*(b)+(c)?`, []string{"b", "aabbc", "bc"}, []string{"a", "c", ""}},
	{`[a-z]+(-[0-9]+)?`, []string{"ab", "ab-12"}, []string{"-12", "ab-"}},
	{`((ab|cd))`, []string{"ab", "cd"}, []string{"a", "abcd"}},
	{`(((x)))y`, []string{"xy"}, []string{"x", "y"}},
	{`((a)|(b))+`, []string{"a", "ab", "bba"}, []string{"", "c"}},
	// the dot does not match a line break, white-space classes do - also inside the user's own groups
	{`(.+)\.(txt|md)`, []string{"a.txt", "x.y.md"}, []string{"a\nb.txt", "txt", ".md"}},
	{`v(.)(\.[0-9])?`, []string{"v1", "vx.2"}, []string{"v\n", "v", "v\n.1"}},
	{`\s*x`, []string{"x", " x", "\nx"}, []string{"y", "x ", "\u00a0x", "\u2003x"}},
	{`\Sx`, []string{"ax", "1x"}, []string{" x", "\nx", "x"}},
	// parentheses and brackets that are not groups: inside classes, quoted with \Q..\E, a class that starts with ]
	{`(v|r)[(0-9)]+`, []string{"v1", "r(2)", "v)"}, []string{"v1:2", "v?", "vx", "v"}},
	{`([a-z]+)\Q()\E`, []string{"now()", "a()"}, []string{"now", "now(", "()"}},
	{`\Q[\E(x|y)`, []string{"[x", "[y"}, []string{"x", "[z", "[xy"}},
	{`(v)[](]+`, []string{"v(", "v]", "v]("}, []string{"v:", "v", "v["}},
	// inline flags: they govern the expression they are written in, nothing else of the segment
	{`(?i)[a-z]+`, []string{"abc", "ABC", "aBc", "\u212a", "\u017f"}, []string{"1", "", "ａ", "é"}},
	{`(?i)[a-z]{2}`, []string{"de", "DE"}, []string{"d", "d1"}},
	{`(?s).x`, []string{"ax", "\nx"}, []string{"x", "axx"}},
	{`(?m)[a-z]+`, []string{"abc"}, []string{"abc\nxyz", "\nabc", ""}},
	{`(?U)a+b?`, []string{"a", "aab"}, []string{"b", ""}},
	// Unicode classes (Perl syntax with Unicode groups, as regexp.Compile accepts)
	{`\pL+`, []string{"ab", "é", "Ω"}, []string{"1", ""}},
	{`[\pL\pN_]+`, []string{"a1_", "é9"}, []string{"-", ""}},
	{`\p{Greek}+`, []string{"Ω", "αβ"}, []string{"a", ""}},
	{`\PL+`, []string{"12", "-"}, []string{"a", ""}},
}

// Idents are static literals; they include every regex-active identifier
// character (. $ ( ) * +) and an escape-looking literal.
var Idents = []string{"a", "b", "c", "ab", "a.b", "v1", "a+b", "(x)", "$y", "%41", "~t", "1", "x-y", "b*", "a$", "**", "*"}

// Binds is deliberately tiny so that duplicate-bind and stale-parameter
// situations are common. `route` and `withOptional` are reserved.
var Binds = []string{"x", "y", "z", "p", "q"}

// Values fill placeholders and match-all spans.
var Values = []string{"a", "b", "c", "ab", "1", "12", "abc", "", "%41", "x%2Fy", "%zz", "%", "a.b", "a+b", "v1", "\xff", "é", "a b", "(x)", "$y", "x", "xy", "{x}", "12f", "bc", "aa", "A"}

// Cfg tunes route generation.
type Cfg struct {
	MaxSegs    int
	PoolSize   int
	AllowRoot  bool
	NoRegex    bool
	OnlyStatic bool
}

func pick(r *rand.Rand, ss []string) string { return ss[r.Intn(len(ss))] }

// captureLit spells a capture limit: mostly 1..3, sometimes zero-padded decimals (still decimal), 0 (no limit)
// or a two- to four-digit limit (around 128, 256 and beyond).
func captureLit(r *rand.Rand) string {
	if r.Intn(12) == 0 {
		if r.Intn(3) == 0 {
			return pick(r, []string{"-1", "-2", "+2", "-0", "+1"})
		}
		return pick(r, []string{"08", "09", "007", "010", "0", "00", "12", "02", "018", "127", "128", "129", "200", "255", "256", "257", "300", "1000"})
	}
	return string(rune('1' + r.Intn(3)))
}

// bindName draws a bind name: the tiny pool, rarely a name that looks like one of the API's own keywords.
func bindName(r *rand.Rand) string {
	switch r.Intn(60) {
	case 0:
		return "route"
	case 1:
		return pick(r, []string{"capture", "withOptional", "Route"})
	case 2:
		return pick(r, []string{"user-id", "v.1", "n~m", "k@x", "a+b", "(z)", "$v", "x'y"}) // every identifier character may occur in a bind name
	case 3:
		return pick(r, []string{"**p", "*x", "x**", "**", "*", "p*q"}) // ... also the asterisk: a name is a name, "**" is a value
	}
	return pick(r, Binds)
}

// boundaryLens are lengths at which buffers, small-string paths or size classes typically change.
var boundaryLens = []int{15, 16, 17, 31, 32, 33, 63, 64, 65, 127, 128, 129, 255, 256, 257, 1023, 1024, 4096}

// LongValue returns a value of a boundary length (rarely used so that it stays a small share of the workload).
func LongValue(r *rand.Rand) string {
	n := boundaryLens[r.Intn(len(boundaryLens))]
	return strings.Repeat(pick(r, []string{"a", "1", "z", "b"}), n)
}

// val draws a placeholder / match-all value, occasionally a long one.
func val(r *rand.Rand) string {
	if r.Intn(25) == 0 {
		return LongValue(r)
	}
	return pick(r, Values)
}

// GenRegexElems builds 1..3 elements of a regex segment (no two adjacent literals).
func GenRegexElems(r *rand.Rand) []rmodel.Elem {
	n := 1 + r.Intn(3)
	var es []rmodel.Elem
	lastLit := false
	hasNonLit := false
	for i := 0; i < n; i++ {
		x := r.Intn(10)
		switch {
		case x < 3 && !lastLit:
			es = append(es, rmodel.Elem{Lit: pick(r, Idents)})
			lastLit = true
			continue
		case x < 5:
			es = append(es, rmodel.Elem{Bind: bindName(r)})
		default:
			np := 1
			if r.Intn(5) == 0 {
				np = 2 + r.Intn(2)
			}
			var ps []rmodel.Param
			for k := 0; k < np; k++ {
				ps = append(ps, rmodel.Param{Name: bindName(r), Value: Catalogue[r.Intn(len(Catalogue))].Expr, IsRegex: true, Blanks: 1, Lead: 1})
			}
			es = append(es, rmodel.Elem{Params: ps})
		}
		lastLit = false
		hasNonLit = true
	}
	// A regex segment needs either ≥2 elements or a parameter-list element.
	if !hasNonLit || (len(es) == 1 && es[0].IsBind()) {
		es = append(es, rmodel.Elem{Params: []rmodel.Param{{Name: pick(r, Binds), Value: Catalogue[r.Intn(len(Catalogue))].Expr, IsRegex: true, Blanks: 1, Lead: 1}}})
	}
	return es
}

// GenSeg draws one segment of the four kinds.
func GenSeg(r *rand.Rand, c Cfg) rmodel.Segment {
	x := r.Intn(20)
	if c.OnlyStatic {
		x = 0
	}
	switch {
	case x < 7:
		return rmodel.Segment{Elems: []rmodel.Elem{{Lit: pick(r, Idents)}}}
	case x < 10:
		return rmodel.Segment{Elems: []rmodel.Elem{{Bind: bindName(r)}}}
	case x < 15 && !c.NoRegex:
		return rmodel.Segment{Elems: GenRegexElems(r)}
	case x < 17:
		return rmodel.Segment{Elems: []rmodel.Elem{{Params: []rmodel.Param{{Name: bindName(r), Value: "**", Blanks: 1}}}}}
	case x < 19:
		return rmodel.Segment{Elems: []rmodel.Elem{{Params: []rmodel.Param{
			{Name: bindName(r), Value: "**", Blanks: 1},
			{Name: "capture", Value: captureLit(r), Blanks: 1, Lead: 1}}}}}
	default:
		if r.Intn(2) == 0 {
			return rmodel.Segment{Elems: []rmodel.Elem{{Bind: "**"}}}
		}
		return rmodel.Segment{Elems: []rmodel.Elem{{Lit: pick(r, Idents)}}}
	}
}

// GenPool draws the per-set pool of segment shapes that makes siblings collide.
func GenPool(r *rand.Rand, c Cfg) []rmodel.Segment {
	n := c.PoolSize
	if n == 0 {
		n = 4 + r.Intn(3)
	}
	pool := make([]rmodel.Segment, n)
	for i := range pool {
		pool[i] = GenSeg(r, c)
	}
	return pool
}

func cloneSeg(s rmodel.Segment) rmodel.Segment {
	out := rmodel.Segment{Optional: s.Optional}
	for _, e := range s.Elems {
		ne := rmodel.Elem{Lit: e.Lit, Bind: e.Bind}
		ne.Params = append([]rmodel.Param(nil), e.Params...)
		out.Elems = append(out.Elems, ne)
	}
	return out
}

// GenRoute draws a route over the pool: 1..MaxSegs segments, final segment
// optional with probability 1/4, sometimes an empty final segment or the root.
func GenRoute(r *rand.Rand, pool []rmodel.Segment, c Cfg) *rmodel.Route {
	max := c.MaxSegs
	if max == 0 {
		max = 4
	}
	if c.AllowRoot && r.Intn(25) == 0 {
		return &rmodel.Route{Segs: []rmodel.Segment{{}}}
	}
	n := 1 + r.Intn(max)
	rt := &rmodel.Route{}
	for i := 0; i < n; i++ {
		rt.Segs = append(rt.Segs, cloneSeg(pool[r.Intn(len(pool))]))
	}
	last := &rt.Segs[n-1]
	if r.Intn(4) == 0 {
		last.Optional = true
	} else if n > 1 && r.Intn(15) == 0 {
		*last = rmodel.Segment{} // "/a/" – empty final segment
		if r.Intn(3) == 0 {
			last.Optional = true // "/a/?" – the optional segment has no element: long form "/a/", short form "/a"
		}
	}
	return rt
}

// GenSet draws a set of routes over one pool.
func GenSet(r *rand.Rand, c Cfg, maxRoutes int) []*rmodel.Route {
	pool := GenPool(r, c)
	n := 1 + r.Intn(maxRoutes)
	if r.Intn(80) == 0 {
		// occasionally a big set over a bigger pool: nodes with more than 8/16 children
		pool = append(pool, GenPool(r, Cfg{PoolSize: 12, NoRegex: c.NoRegex, OnlyStatic: c.OnlyStatic})...)
		n = 20 + r.Intn(25)
	}
	out := make([]*rmodel.Route, n)
	for i := range out {
		out[i] = GenRoute(r, pool, c)
	}
	return out
}

// ---------------------------------------------------------------------------
// paths

func sampleFor(r *rand.Rand, expr string, positive bool) string {
	for _, c := range Catalogue {
		if c.Expr == expr {
			if positive || len(c.Neg) == 0 {
				return pick(r, c.Pos)
			}
			return pick(r, c.Neg)
		}
	}
	return pick(r, Values)
}

func nonEmptyValue(r *rand.Rand) string {
	for {
		v := pick(r, Values)
		if v != "" {
			return v
		}
	}
}

// InstSeg instantiates one route segment into 1..n raw path segments.
func InstSeg(r *rand.Rand, s *rmodel.Segment, final bool) []string {
	sg, _ := rmodel.Classify(s)
	switch sg.Kind {
	case rmodel.KStatic:
		return []string{sg.Lit}
	case rmodel.KPlaceholder:
		return []string{val(r)}
	case rmodel.KAll, rmodel.KOdd:
		n := 1 + r.Intn(3)
		if r.Intn(6) == 0 {
			n = 4
		}
		if r.Intn(300) == 0 {
			n = []int{126, 127, 128, 129, 255, 256, 257, 300}[r.Intn(8)] // spans around integer-width boundaries
		}
		if sg.Kind == rmodel.KAll && sg.Capture > 0 && r.Intn(4) == 0 {
			n = sg.Capture + r.Intn(2) // exactly the limit, or one segment too many
		} else if sg.Kind == rmodel.KAll && sg.Capture >= 100 {
			n = sg.Capture - 2 + r.Intn(5) // a three-digit limit is there to be met: two below .. two above
		}
		out := make([]string, n)
		for i := range out {
			out[i] = val(r)
		}
		return out
	}
	var sb strings.Builder
	for _, e := range s.Elems {
		switch {
		case e.IsLit():
			sb.WriteString(e.Lit)
		case e.IsBind():
			sb.WriteString(nonEmptyValue(r))
		default:
			for _, p := range e.Params {
				sb.WriteString(sampleFor(r, p.Value, r.Intn(12) != 0))
			}
		}
	}
	return []string{sb.String()}
}

// InstRoute instantiates a form of the route (short form iff short and the
// route has an optional last segment).
func InstRoute(r *rand.Rand, rt *rmodel.Route, short bool) []string {
	var out []string
	n := len(rt.Segs)
	for i := range rt.Segs {
		if i == n-1 && rt.Segs[i].Optional && short {
			break
		}
		out = append(out, InstSeg(r, &rt.Segs[i], i == n-1)...)
	}
	if len(out) == 0 {
		out = []string{""}
	}
	return out
}

// Mutate applies one hostile edit to a segment list.
func Mutate(r *rand.Rand, segs []string) []string {
	out := append([]string(nil), segs...)
	if len(out) == 0 {
		return []string{""}
	}
	i := r.Intn(len(out))
	switch r.Intn(15) {
	case 14: // one character becomes a look-alike outside ASCII: another script's digit, a full-width letter, a no-break space
		if rs := []rune(out[i]); len(rs) > 0 && utf8.ValidString(out[i]) {
			j := r.Intn(len(rs))
			switch c := rs[j]; {
			case c >= '0' && c <= '9':
				rs[j] = []rune{0x660, 0xff10, 0x9e6, 0x1d7ce}[r.Intn(4)] + (c - '0')
			case c >= 'a' && c <= 'z':
				rs[j] = 0xff41 + (c - 'a')
			case c >= 'A' && c <= 'Z':
				rs[j] = 0xff21 + (c - 'A')
			case c == ' ':
				rs[j] = 0xa0
			case c == '-':
				rs[j] = 0x2010
			case c == '.':
				rs[j] = 0x2024
			}
			out[i] = string(rs)
		}
	case 11: // upper-case the segment (literals and values are case-sensitive unless an expression says otherwise)
		out[i] = strings.ToUpper(out[i])
	case 12: // flip the case of one letter
		if len(out[i]) > 0 {
			j := r.Intn(len(out[i]))
			b := out[i][j]
			if b >= 'a' && b <= 'z' {
				out[i] = out[i][:j] + string(b-32) + out[i][j+1:]
			} else if b >= 'A' && b <= 'Z' {
				out[i] = out[i][:j] + string(b+32) + out[i][j+1:]
			}
		}
	case 13: // a line break inside the segment
		j := r.Intn(len(out[i]) + 1)
		out[i] = out[i][:j] + "\n" + out[i][j:]
	case 0: // drop
		out = append(out[:i], out[i+1:]...)
		if len(out) == 0 {
			out = []string{""}
		}
	case 1: // duplicate
		out = append(out[:i+1], out[i:]...)
	case 2: // replace
		out[i] = pick(r, Values)
	case 3: // trailing slash
		out = append(out, "")
	case 4: // empty segment
		out[i] = ""
	case 5: // percent-encode one byte
		if len(out[i]) > 0 {
			j := r.Intn(len(out[i]))
			const hex = "0123456789ABCDEF"
			b := out[i][j]
			out[i] = out[i][:j] + "%" + string(hex[b>>4]) + string(hex[b&15]) + out[i][j+1:]
		}
	case 6: // malformed escape
		out[i] += pick(r, []string{"%zz", "%", "%4"})
	case 7: // extra segment
		out = append(out, pick(r, Values))
	case 8: // replace by an identifier
		out[i] = pick(r, Idents)
	case 9: // swap neighbours
		if len(out) > 1 {
			j := (i + 1) % len(out)
			out[i], out[j] = out[j], out[i]
		}
	case 10: // append a byte
		out[i] += pick(r, []string{"x", "1", ".", "\x00", "\xfe"})
	}
	return out
}

// Path renders segments as a request path with 1 (sometimes more) leading slashes.
func Path(r *rand.Rand, segs []string) string {
	lead := "/"
	switch r.Intn(20) {
	case 0:
		lead = "//"
	case 1:
		lead = "///"
	case 2:
		lead = ""
	}
	return lead + strings.Join(segs, "/")
}

// GenPath draws one route-directed path for the set.
func GenPath(r *rand.Rand, routes []*rmodel.Route) string {
	if len(routes) == 0 {
		return "/" + pick(r, Values)
	}
	rt := routes[r.Intn(len(routes))]
	x := r.Intn(20)
	switch {
	case x < 9: // exact instance of a form
		return Path(r, InstRoute(r, rt, r.Intn(2) == 0))
	case x < 16: // mutated instance
		segs := InstRoute(r, rt, r.Intn(2) == 0)
		for k := 1 + r.Intn(2); k > 0; k-- {
			segs = Mutate(r, segs)
		}
		return Path(r, segs)
	case x < 17: // literal probe: route text used as a path
		t := rt.Canon()
		if r.Intn(2) == 0 {
			t = strings.Replace(t, "/?", "/", 1)
		}
		return t
	default: // random segments
		n := 1 + r.Intn(5)
		segs := make([]string, n)
		for i := range segs {
			if r.Intn(2) == 0 {
				segs[i] = pick(r, Values)
			} else {
				segs[i] = pick(r, Idents)
			}
		}
		return Path(r, segs)
	}
}
